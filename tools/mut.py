#!/venv/bin/python
"""Mutation sensitivity helper.

tools/mut.py <CHECK_ID[,ID2...]> <file relative to repo> <old literal> <new literal> [--tier quick] [--count N]

Copies $REPO/qubovert (default /repo) to a scratch dir under /tmp, replaces the
N-th (default: the only) occurrence of <old> by <new>, runs ./check for each id
with VERIF_REPO pointing at the scratch copy, prints KILLED/SURVIVED, and removes
the scratch copy.
"""
import os, shutil, subprocess, sys, tempfile, time

def main():
    args = sys.argv[1:]
    tier, count = "quick", None
    if "--tier" in args:
        i = args.index("--tier"); tier = args[i + 1]; del args[i:i + 2]
    if "--count" in args:
        i = args.index("--count"); count = int(args[i + 1]); del args[i:i + 2]
    ids, rel, old, new = args[0].split(","), args[1], args[2], args[3]
    repo = os.environ.get("MUT_REPO", "/repo")
    tmp = tempfile.mkdtemp(prefix="qv_mut_")
    try:
        shutil.copytree(os.path.join(repo, "qubovert"), os.path.join(tmp, "qubovert"),
                        ignore=shutil.ignore_patterns("__pycache__", "*.so"))
        p = os.path.join(tmp, rel)
        s = open(p).read()
        n = s.count(old)
        if n == 0:
            print("MUTANT NOT APPLICABLE: %r not found in %s" % (old, rel)); return 3
        if count is None:
            if n != 1:
                print("MUTANT AMBIGUOUS: %r occurs %d times in %s (use --count)" % (old, n, rel)); return 3
            s = s.replace(old, new)
        else:
            parts = s.split(old)
            s = old.join(parts[:count]) + new + old.join(parts[count:])
        open(p, "w").write(s)
        rc_all = 0
        for cid in ids:
            t0 = time.time()
            env = dict(os.environ, VERIF_REPO=tmp)
            r = subprocess.run(["./check", cid, "--tier", tier], cwd=os.path.dirname(os.path.dirname(os.path.abspath(__file__))),
                               capture_output=True, text=True, env=env)
            line = [l for l in r.stdout.splitlines() if l.startswith(("VIOLATION", "OK", "KNOWN"))]
            detail = [l for l in r.stdout.splitlines() if l.startswith("  sub=")]
            status = {0: "SURVIVED", 1: "KILLED"}.get(r.returncode, "HARNESS-ERROR rc=%d" % r.returncode)
            print("%s %s [%s: %r -> %r] %.0fs %s %s" % (status, cid, rel, old[:50], new[:50], time.time() - t0,
                                                    line[:1], detail[:1]))
            if r.returncode not in (0, 1):
                print(r.stderr[-1500:])
            rc_all |= (r.returncode != 1)
        return rc_all
    finally:
        shutil.rmtree(tmp, ignore_errors=True)

if __name__ == "__main__":
    sys.exit(main())
