#!/bin/bash
# False-alarm battery: semantics-preserving (or statement-preserving) changes of the library.
# Every line must print SURVIVED: a check that "kills" one of these raises an alarm on code
# where its property still holds.
cd "$(dirname "$0")/.." || exit 2
M=tools/mut.py
# B1 brute force enumerates assignments in the opposite order (another minimiser first, other list order)
$M C09,C08,C10,C19 qubovert/utils/_solve_bruteforce.py '(1, -1) if spin else (0, 1)' '(-1, 1) if spin else (1, 0)'
# B2 a larger default reduction penalty
$M C01,C08,C14,C16 qubovert/_pubo.py 'return 1 + abs(v)' 'return 2 + abs(v)'
# B3 another temperature heuristic
$M C15,C11,C12,C17,C19 qubovert/sim/_anneal_temperature_range.py 'factor = 2 ' 'factor = 3 '
# B4 general equality penalty doubled (still >= lam on violations, 0 on solutions)
$M C02,C03,C06,C08,C16,C14 qubovert/_pcbo.py '            self += lam * P * P' '            self += 2 * lam * P * P'
# B5 best = the last of equal minima instead of the first
$M C13,C11 qubovert/sim/_anneal_results.py 'if self.best is None or result.value < self.best.value:
            self.best = result
        super().append(result)' 'if self.best is None or result.value <= self.best.value:
            self.best = result
        super().append(result)'
# B6 python ints / floats instead of numpy scalars from subgraph / subvalue
$M C18,C19 qubovert/utils/_subgraph.py 'import numpy as np' 'import math
class np:
    prod = staticmethod(math.prod)'
# B7 QUBO.to_qubo fills the matrix in sorted key order (different dict insertion order)
$M C04,C14,C11 qubovert/_qubo.py '        for k, v in self.items():
            key = tuple(self._mapping[i] for i in k)
            Q[key] += v' '        for k, v in sorted(self.items(), key=repr):
            key = tuple(self._mapping[i] for i in k)
            Q[key] += v'
# B8 unary log_trick=False slack for le uses one more ancilla than needed (still exact)
$M C02,C03,C08 qubovert/_pcbo.py '                for i in range(num_bits(-min_val, log_trick)):' '                for i in range(num_bits(-min_val, log_trick) + (0 if log_trick else 1)):'
# B9 reduction ancillas start one label later than necessary (labels >= n, unused, still strictly larger)
$M C01,C08,C14,C16 qubovert/_pubo.py '        ancilla = self.num_binary_variables' '        ancilla = self.num_binary_variables + 1'
# B10 constraint ancilla counter advances by two (names distinct, all indices below num_ancillas)
$M C02,C03,C08,C14,C16,C19 qubovert/_pcbo.py '        self._ancilla += 1' '        self._ancilla += 2'
# B11 annealer states are packaged with their keys in reverse order
$M C11,C12,C17,C19 qubovert/sim/_anneal.py '        state = {reverse_mapping[k]: v for k, v in enumerate(states[i])}' '        state = {reverse_mapping[k]: v for k, v in reversed(list(enumerate(states[i])))}'
# B12 convert_solution builds its result in reverse order
$M C01,C04,C08,C10 qubovert/_qubo.py '            for i in range(self.num_binary_variables)' '            for i in reversed(range(self.num_binary_variables))'
# B15 OR built by De Morgan (same function, different construction)
$M C06,C07,C08,C19 qubovert/sat/_satisfiability.py '    x, v = OR(*variables[:-1]), BUFFER(variables[-1])
    return x + v * (1 - x)' '    return NOT(AND(*[NOT(v) for v in variables]))'
# B16 update() with a constrained model adds the other counter instead of taking the maximum (names stay unique, counter stays an upper bound)
$M C14,C02,C03 qubovert/_pcbo.py '            self._ancilla = max(self._ancilla, args[0]._ancilla)' '            self._ancilla += args[0]._ancilla'
# B18 the brute-force solver visits the variables in reverse order (other order of all_solutions)
$M C09,C08,C10 qubovert/utils/_solve_bruteforce.py '        x = {mapping[i]: v for i, v in enumerate(test_sol)}' '        x = {mapping[i]: v for i, v in reversed(list(enumerate(test_sol)))}'
# B19 default reduction penalty computed in floating point (1.0 + |v|)
$M C01,C04,C08,C16 qubovert/_pubo.py 'return 1 + abs(v)' 'return 1.0 + abs(v)'
