SETUP = ("/venv/bin/python -c 'import hypothesis' 2>/dev/null || "
         "/venv/bin/pip install --no-index --find-links /opt/veriftools/wheels hypothesis")
HOOKS = {
    "guard": "JTIOSUE_QUBOVERT_VERIF",
    "enable": "./check exports JTIOSUE_QUBOVERT_VERIF=1 and imports an overlay copy of /repo/qubovert rebuilt under /verif/.build/ on every run",
    "baseline_off_cmd": "/verif/tools/baseline.sh",
    "source_commits": [],
    "add_only": True,
}
ENGINES = [
    {"name": "hypothesis-sharded", "path": "/verif/vf/common.py",
     "serves_properties": [],
     "kind_free_text": "Hypothesis 6.168 strategies producing plain-data specs, run in 12-16 forked shards seeded from VERIF_SEED; pure run_case(spec) oracles against an independent reference evaluator (vf/ref.py); shrunk failures are written as replay JSON"},
]
NOTES = ("All checks: ./check <ID> [--tier quick|thorough] [--replay FILE]. Exit 0 held / 1 VIOLATION / 2 harness error. "
         "Every run copies $VERIF_REPO/qubovert (default /repo) into /verif/.build/<ID>-plain and recompiles the C extension from the working tree.")
NOT_YET = "check not built yet in this session (planned, see DESIGN.md section 4); not claimed until it is green on the unchanged tree and kills its mutants"
NOT_APPLICABLE = {}

CHECKS = {
    "C13": {
        "text": "Model-based history testing: generated histories of 30 AnnealResults list operations are interpreted against a plain-list model; content equality and the best-invariant are checked after every step. Exploration, not proof: bounded history length (40) and operand pools.",
        "design_ref": "DESIGN.md section 4, C13",
        "note": "Trusted: python list semantics as the model; Hypothesis generation. Operands restricted to what a plain list accepts.",
        "technique": "property-based testing: model-based (stateful) history generation with Hypothesis, list-model oracle, shrinking to replay JSON",
    },
}
CHECKS["C14"] = {
    "text": "Model-based history testing of all ten model types: generated edit histories (item assignment incl. zeros, augmented assignment, in-place arithmetic with scalars/dicts/models, update, clear, refresh, comparison constraints, copies) with bookkeeping invariants checked against the stored polynomial after every step, truth-table validation (min over ancillas == model) of every to_* form at generated points, and an ancilla-reuse probe. Exploration within bounded histories (<=30 steps, <=5 labels).",
    "design_ref": "DESIGN.md section 4, C14",
    "note": "Trusted: vf/ref.py evaluator and numpy truth tables; the model's stored dict as ground truth for 'true' variables/degree. Reduced forms compared with tolerance 1e-9*sum|coef|.",
    "technique": "property-based testing: model-based (stateful) edit-history generation with Hypothesis, invariant-after-every-step and truth-table oracles, shrinking to replay JSON",
}
for e in ENGINES:
    e["serves_properties"] = sorted(CHECKS)
