SETUP = ("(/venv/bin/python -c 'import hypothesis' 2>/dev/null || "
         "/venv/bin/pip install --no-index --find-links /opt/veriftools/wheels hypothesis) && "
         "(PYTHONPATH=/verif/.deps /venv/bin/python -c 'import atheris' 2>/dev/null || "
         "/venv/bin/pip install -q --no-index --find-links /opt/veriftools/wheels --target /verif/.deps atheris || true)")
HOOKS = {
    "guard": "JTIOSUE_QUBOVERT_VERIF",
    "enable": "./check exports JTIOSUE_QUBOVERT_VERIF=1 (read once at import of qubovert._pubo) and imports an overlay copy of /repo/qubovert rebuilt under /verif/.build/ on every run; the hook records a degree-reduction certificate used by C01 (sub-check cert)",
    "baseline_off_cmd": "/verif/tools/baseline.sh",
    "source_commits": ["6afc3db"],
    "add_only": True,
}
ENGINES = [
    {"name": "hypothesis-sharded", "path": "/verif/vf/common.py",
     "serves_properties": [],
     "kind_free_text": "Hypothesis 6.168 strategies producing plain-data specs, run in 12-16 forked shards seeded from VERIF_SEED; pure run_case(spec) oracles against an independent reference evaluator (vf/ref.py); shrunk failures are written as replay JSON"},
    {"name": "atheris-coverage-guided", "path": "/verif/vf/cgf.py",
     "serves_properties": [],
     "kind_free_text": "atheris 3.1 / libFuzzer campaign (thorough tier, or VERIF_CGF=1): the same Hypothesis strategies are driven through fuzz_one_input from mutated byte strings, the python byte code of qubovert (only) is instrumented for coverage feedback, the same run_case oracles judge every decoded case; 16 independent libFuzzer processes per property, failing spec saved as the same replay JSON. Not used for C12 (statistical oracle) and C17 (code under test runs in the sanitised worker process)"},
]
CGF_OFF = ("C12", "C17")
NOTES = ("All checks: ./check <ID> [--tier quick|thorough] [--replay FILE]. Exit 0 held / 1 VIOLATION / 2 harness error. "
         "Every run copies $VERIF_REPO/qubovert (default /repo) into /verif/.build/<ID>-plain and recompiles the C extension from the working tree.")
NOT_YET = "check not built yet in this session (planned, see DESIGN.md section 4); not claimed until it is green on the unchanged tree and kills its mutants"
NOT_APPLICABLE = {}

CHECKS = {
    "C13": {
        "text": "Model-based history testing: generated histories of 30 AnnealResults list operations are interpreted against a plain-list model; content equality and the best-invariant are checked after every step. Exploration, not proof: bounded history length (40) and operand pools.",
        "design_ref": "DESIGN.md section 4, C13",
        "note": "Trusted: python list semantics as the model; Hypothesis generation. Operands restricted to what a plain list accepts.",
        "technique": "property-based testing: model-based (stateful) history generation with Hypothesis, list-model oracle, shrinking to replay JSON",
    },
}
CHECKS["C14"] = {
    "text": "Model-based history testing of all ten model types: generated edit histories (item assignment incl. zeros, augmented assignment, in-place arithmetic with scalars/dicts/models, update, clear, refresh, comparison constraints, copies) with bookkeeping invariants checked against the stored polynomial after every step, truth-table validation (min over ancillas == model) of every to_* form at generated points, and an ancilla-reuse probe. Exploration within bounded histories (<=30 steps, <=5 labels).",
    "design_ref": "DESIGN.md section 4, C14",
    "note": "Trusted: vf/ref.py evaluator and numpy truth tables; the model's stored dict as ground truth for 'true' variables/degree. Reduced forms compared with tolerance 1e-9*sum|coef|.",
    "technique": "property-based testing: model-based (stateful) edit-history generation with Hypothesis, invariant-after-every-step and truth-table oracles, shrinking to replay JSON",
}
CHECKS["C11"] = {
    "text": "Generated calls of the four annealers over every documented model type (dicts with unsorted/repeated labels, labelled types incl. stale bookkeeping, Matrix types with gaps), schedules, temperature ranges, initial states, orders, seeds; every returned result is judged by an independent evaluator (count, types, spin flag, state keys, domain, value == model(state), best == min, arguments unchanged). Exploration within bounded sizes (<=6 variables, degree <=5).",
    "design_ref": "DESIGN.md section 4, C11",
    "note": "Trusted: vf/ref.py evaluator; gcc -O2 build of the extension compiled from the working tree on every run. Float-coefficient models compared with tolerance 1e-9*sum|coef|, dyadic ones exactly.",
    "technique": "property-based testing: Hypothesis-generated annealer calls judged by an independent reference evaluator (differential oracle), shrinking to replay JSON",
}
CHECKS["C12"] = {
    "text": "Three generated sub-checks: (1) repeat-call equality under an integer seed; (2) zero-temperature schedules: no result above the initial value, and exact equality with a reference in-order sweep on tie-free Matrix instances; (3) positive temperatures: chi-square comparison (alpha 1e-9, confirmed on 3 further seeds) of 2*10^5 final states with the exact k-sweep distribution of reference single-spin Metropolis kernels for in-order and random visiting. Statistical exploration: power ~2% total variation per instance.",
    "design_ref": "DESIGN.md section 4, C12",
    "note": "Trusted: reference Metropolis transition matrices built from vf/ref.py energies (numpy), mpmath chi-square tail, plain build of the extension from the working tree. Ties at T=0 excluded (not pinned by the statement).",
    "technique": "property-based testing: Hypothesis-generated models/schedules with a reference-model oracle (exact Markov-chain distribution, reference sweep) and a statistical goodness-of-fit test",
}
CHECKS["C17"] = {
    "text": "Coverage-measured fuzzing of the C kernels through the Python API: Hypothesis generates sequences of 1..6 annealer calls skewed to index/buffer-stressing shapes, executed in one persistent child process against a clang ASan+UBSan build of the extension compiled from the working tree; sanitizer reports or abnormal death fail the case and are shrunk; C11's oracle runs on every result and history-dependent failures are reported. gcov line coverage of the five C files is measured and written to the evidence.",
    "design_ref": "DESIGN.md section 4, C17",
    "note": "Trusted: clang 14 sanitizer runtimes (ASan, UBSan incl. signed overflow, no-recover), LD_PRELOAD into stock CPython, detect_leaks=0. Not reachable: 32-bit size overflow needing > 8 GB.",
    "technique": "fuzzing: Hypothesis-generated call sequences against an ASan/UBSan-instrumented build in a persistent worker, with shrinking; gcov-measured coverage",
}
_T_TT = "property-based testing: Hypothesis-generated inputs judged by complete numpy truth tables of an independent reference evaluator (vf/ref.py), shrinking to replay JSON"
CHECKS["C01"] = {
    "text": "Two generated sub-checks. enum: small refreshed PUBO/PUSO/PCBO/PCSO models x 4 targets x degree x pairs hints x 6 penalty classes, decided on complete truth tables of M and D (exact extension exists for every x; min over ancillas == M and arg-mins convert to minimisers when penalty >= |coefficient|; degree/type/label discipline; convert_solution in dict/list/tuple, boolean/spin form). cert: models up to 12 variables / degree 8, where the reduction certificate recorded by the guarded hook is validated step by step (pair in key, fresh unique ancilla >= n, penalty >= |v|, final key) and D must equal the polynomial the certificate implies; the 8-row gadget table plus that identity give the inequality for every assignment of that model, cross-checked on 300 sampled assignments.",
    "design_ref": "DESIGN.md section 4, C01",
    "note": "Trusted: vf/ref.py evaluator and conversions, numpy; dyadic coefficients so comparisons are exact. cert needs the hook JTIOSUE_QUBOVERT_VERIF=1 (absent certificate => counted and skipped, verdict rests on enum). Refreshed models only (stale states are C14).",
    "technique": _T_TT + "; certificate validation (polynomial identity) for models beyond enumeration",
}
CHECKS["C02"] = {
    "text": "Generated integer boolean polynomials from a branch-targeted shape mixture x 6 relations x log_trick x bounds modes (always a valid enclosure) x lam x argument types, 1-3 constraints per model incl. a switch to a copy; the added polynomial F = after - before (reference subtraction) is tabulated over all (x, ancillas): F >= 0, min_a F = 0 iff relation holds, F >= lam otherwise (only F >= 0 when warned unsatisfiable); is_solution_valid against the reference relations on all x; ancilla names pairwise distinct across constraints; argument unchanged. Exact arithmetic.",
    "design_ref": "DESIGN.md section 4, C02",
    "note": "Trusted: vf/ref.py polynomial arithmetic and tables. Constraints needing > 16 variables counted too_big (0 in practice). Integer-valued P only.",
    "technique": _T_TT,
}
CHECKS["C03"] = {
    "text": "C02's generator and oracle on PCSO / spin polynomials (integer-valued; 1-4 constraints per model, copy mid-way continuing the numbering), plus: every ancilla '__a<k>' present has k < num_ancillas and names never repeat across constraints.",
    "design_ref": "DESIGN.md section 4, C03",
    "note": "Trusted: vf/ref.py; shares code with vf/c02.py. Bounds valid for H by the reference table.",
    "technique": _T_TT,
}
CHECKS["C05"] = {
    "text": "Generated expression trees (depth <= 4) over the ten model types, raw dicts and scalars with + - * ** unary - and / in normal, reflected and in-place forms; every operator node is run with the library and compared with a numpy evaluation of the tree on plain numbers at every assignment; .value and the four *_value functions for dict/list/tuple assignments; canonical storage; algebraically rewritten trees must give equal dicts; operand snapshots; result type; the KeyError rule of the degree-2 types (unspecified zone counted, not judged).",
    "design_ref": "DESIGN.md section 4, C05",
    "note": "Trusted: numpy evaluation of the tree, vf/ref.py. Exact comparison when all constants are dyadic and within 2^52, else tolerance 1e-9*scale.",
    "technique": "property-based testing: Hypothesis-generated expression trees with a plain-number evaluation oracle and metamorphic rewrites (commute/distribute/re-associate), shrinking to replay JSON",
}
CHECKS["C06"] = {
    "text": "All 16 logical constraint methods: the finite sub-domain (plain distinct labels, arity <= 3, 4 weights, 6 label pools, 2 bases: 3456 cases) is enumerated completely; beyond it Hypothesis generates arities up to 4 with label or {0,1}-valued expression operands (sat trees, dict/PUBO/PCBO forms), shared variables, base objective. F = after - before must be 0 where the gate relation holds (python-bool semantics) and >= lam elsewhere on the full truth table, involve only operand variables and no '__a' ancilla; is_solution_valid must agree; operands unchanged.",
    "design_ref": "DESIGN.md section 4, C06",
    "note": "Trusted: vf/satref.py python-bool gate semantics and reference polynomials, vf/ref.py tables; exact dyadic arithmetic.",
    "technique": _T_TT + "; exhaustive enumeration of the plain-label sub-domain",
}
CHECKS["C07"] = {
    "text": "Generated trees over the 8 sat gates (depth <= 4, arity 1-4, <= 6 labels, label and model leaves of every boolean type); the result's truth table must equal the python-bool evaluation of the tree on all assignments; every dict/model operand of every gate call is snapshotted and must be unchanged after the gate, at the end, and after mutating the returned object in place (aliasing).",
    "design_ref": "DESIGN.md section 4, C07",
    "note": "Trusted: vf/satref.py, vf/ref.py. QUBO/QUBOMatrix leaves only over <= 2 variables.",
    "technique": _T_TT,
}
CHECKS["C10"] = {
    "text": "One generated sub-check per problem class (SetCover, VertexCover, BILP, JobSequencing, GraphPartitioning, NumberPartitioning, AlternatingSectorsChain): tiny instances feasible by construction, weights strictly above the documented thresholds (factor 1.001 .. 4) and the defaults; an independent combinatorial solver gives feasibility and optimal cost; is_solution_valid must equal the predicate on all candidates; every ground state of the to_qubo() and to_quso() truth tables must decode to a feasible optimum with ground energy = B * optimal cost; defaults: ground energy = optimum and some ground state decodes to it; solve_bruteforce feasible-optimal (incl. free-variable instances); num_binary_variables covers the labels used.",
    "design_ref": "DESIGN.md section 4, C10",
    "note": "Trusted: the per-problem enumerative solvers in vf/c10.py, vf/ref.py tables; tolerance 1e-9*(1+sum|coef|) on energies. Formulations <= 16 variables.",
    "technique": "property-based testing: Hypothesis-generated problem instances with independent combinatorial solvers as oracle over complete truth tables of the QUBO/QUSO",
}
CHECKS["C15"] = {
    "text": "Generated boolean/spin models of all types and raw dicts (unsorted/repeated labels, n <= 8): the four approximate_*_extrema functions must enclose the exact min/max of the truth table, with lo == hi == c for constants; anneal_temperature_range on a grid of admissible probability pairs (incl. 0, equal, extreme floats) must return finite T0 >= Tf >= 0 and (0, 0) for models without variables, including fully cancelled (stale) models.",
    "design_ref": "DESIGN.md section 4, C15",
    "note": "Trusted: vf/ref.py tables; exact comparison for dyadic coefficients, tolerance 1e-9*sum|coef| for the float class.",
    "technique": _T_TT,
}
CHECKS["C04"] = {
    "text": "Generated sources (raw dicts with unsorted/repeated labels and all ten model types, refreshed state, <= 6 variables, degree <= 6) x one of 14 conversion / export functions where no reduction is needed; the result's truth table must equal the source's under boolean 0 <-> spin +1, 1 <-> -1 and label -> mapping integer; convert_solution is exercised over all 2^n solutions in boolean and spin form as dict/list/tuple with the matching spin flag; exports Q, h/J, matrix_to_qubo, qubo_to_matrix (symmetric x array) describe the same function; documented result types; source unchanged.",
    "design_ref": "DESIGN.md section 4, C04",
    "note": "Trusted: vf/ref.py tables. Exact comparison for dyadic coefficients, 1e-9*sum|coef| for the float class. Cross-type cases are checked for the function only.",
    "technique": _T_TT,
}
CHECKS["C18"] = {
    "text": "Generated G of every type and raw dicts: subvalue (function and method) with binary, arbitrary-number and sympy-symbol values must equal G with the values substituted on every assignment of the remaining variables and keep G's type; subgraph must equal G without its constant with outside variables fixed to connections (default 0); normalize (function and method) must scale all coefficients by one common factor to the requested maximum magnitude and keep the type; inputs unchanged.",
    "design_ref": "DESIGN.md section 4, C18",
    "note": "Trusted: vf/ref.py tables. Repeated labels with non-idempotent substituted values are counted ambiguous and not judged. Symbolic/float classes with tolerance 1e-9*scale.",
    "technique": _T_TT,
}
CHECKS["C08"] = {
    "text": "Generated README pipelines on PCBO and PCSO: objective, a witness drawn first, 1-3 comparison / logical constraints constructed to hold at the witness (feasible by construction), weights (max f - min f) + delta from the reference table, log_trick per constraint, then solve_bruteforce (single/all, also with weak weights), the model as unconstrained problem and to_pubo/to_puso/to_qubo/to_quso with the default penalty. An independent constrained enumeration gives F*; every arg-min of every form's complete truth table must convert (convert_solution with matching spin flag) to a feasible assignment with f == F* and the table minimum must equal F*; remove_ancilla_from_solution must return exactly the non-ancilla part.",
    "design_ref": "DESIGN.md section 4, C08",
    "note": "Trusted: vf/ref.py tables and reference relation semantics. Forms with > 18 variables counted too_big; at most 256 arg-min rows converted per form. No shrink phase in the quick tier.",
    "technique": "property-based testing: Hypothesis-generated end-to-end pipelines (feasible by construction) with an independent constrained-enumeration oracle over complete truth tables",
}
CHECKS["C09"] = {
    "text": "Generated (model, solver, all_solutions, valid) cases over raw dicts and all ten model types, the four solve_*_bruteforce functions and the solve_bruteforce methods (PCBO/PCSO with their own constraints), validity predicates from generated subsets of the assignments; an independent enumeration gives the minimum over valid assignments and the exact arg-min set: objective equal (None if nothing valid), solution over exactly the model's variables, valid and optimal; all_solutions returns every minimiser exactly once and nothing else; empty/constant conventions; model unchanged. Also Problem.solve_bruteforce on two problem classes.",
    "design_ref": "DESIGN.md section 4, C09",
    "note": "Trusted: vf/ref.py enumeration; exact arithmetic (integers / dyadics). Models with > 10 variables skipped (counted).",
    "technique": "property-based testing: Hypothesis-generated models and validity predicates with an independent exhaustive-enumeration oracle (exact arg-min set comparison)",
}
CHECKS["C16"] = {
    "text": "Generated symbolic-vs-numeric builds: PCBO/PCSO models with 1-3 constraint calls (6 comparison methods, 16 logical methods, log_trick, bounds modes) whose weights are sympy Symbols, and PUBO/PUSO reductions (to_qubo/to_quso/to_pubo(d)/to_puso(d)) with lam = Symbol or a symbolic callable; build(symbols).subs(values) must equal build(values) in type, keys, coefficients and recorded constraints, with values chosen dyadic, non-dyadic and solved so that a coefficient cancels; subs must not mutate the symbolic model.",
    "design_ref": "DESIGN.md section 4, C16",
    "note": "Trusted: sympy substitution as part of the code under test's contract; exact comparison for dyadic values, tolerance 1e-9*(sum|coef|) otherwise. variables/mapping/num_ancillas are not compared (not in the statement).",
    "technique": "property-based testing: Hypothesis-generated builds with a commuting-diagram (metamorphic) oracle build(sym).subs(c) == build(c)",
}
CHECKS["C19"] = {
    "text": "Three generated families: (a) create_from_info(get_info(M)) round trip for all ten types with names, set_mapping bijections, stale labels and 0-3 constraints (type, terms, name, mapping, ancilla count, constraints, get_info equality); (b) aliasing: copy(), copy constructors, mapping, reverse_mapping, variables, constraints (and nested polynomials), get_info - a generated mutation of one side must leave the other side's deep snapshot unchanged; (c) argument immutability over a catalogue of 126 library entry points (all constraint methods, sat gates, conversions, to_*, value functions, solvers, extrema, subgraph/subvalue/normalize, info, the four annealers, anneal_temperature_range, arithmetic) with deep snapshots of every argument before/after and after mutating the returned object.",
    "design_ref": "DESIGN.md section 4, C19",
    "note": "Trusted: gen.snapshot deep comparison (dict order not part of equality). Annealer calls kept tiny; plain build of the extension.",
    "technique": "property-based testing: Hypothesis-generated models, mutations and API calls with snapshot-equality (round-trip and non-interference) oracles",
}

# additions of session 3 (appended to the level text of the checks they concern)
_ADD = {
    "C01": " Before the judged conversion an optional pre-history runs on the same object (a first export, then set_mapping / set_reverse_mapping / a coefficient edit followed by refresh() / an edited copy / a different export). Coefficients also as numpy scalars and Fractions.",
    "C02": " A validity query precedes every change; constraints are also brought in with update(model) (mode via_update); P, lam and bounds also as numpy scalars / Fractions.",
    "C03": " Same additions as C02 (validity query before every change, via_update, number types).",
    "C04": " Sub-check lifecycle: one object through edited (poisoned) exports, clear + rebuild, variable drop + refresh + new variable, set_mapping / set_reverse_mapping and edits, all exports and convert_solution re-judged after every step. Sub-check highdeg: terms of degree 7..12. Solution entries as python ints, floats and numpy scalars; 0/1 matrices as bools / uint8; coefficients as numpy scalars and Fractions.",
    "C05": " Sub-check crosstype: every ordered pair of different model types of one family with unequal numbers of terms. Leaves also made with boolean_var / spin_var / integer_var; coefficients and scalars also as numpy scalars and Fractions; label pools with int/float mixes and hash twins.",
    "C06": " Sub-check wide: 5..10 gate operands (+ target) over 12-label pools. Cases whose labels have hash twins (-1/-2, 0/2^61-1) are re-run in the same process with the twin labels.",
    "C08": " Between two constraints the pipeline may export all four forms and call solve_bruteforce (intermediate results discarded), then continue.",
    "C09": " Coefficients also as numpy scalars and Fractions; label pools include ints that look like range(n) by max and length but are not.",
    "C10": " SetCover up to 5 elements / 5 subsets including a hub shape (an element in three indispensable subsets).",
    "C11": " Explicit schedules are handed over as list of floats, python ints, tuple, numpy array, generator or Fractions; shrinking and zig-zag size sequences in the enumerated sizes sub-check. A shard that dies inside the library is replayed in a fresh interpreter; a reproducible crash is reported as a violation.",
    "C12": " Sub-check xproc: the same seeded calls in a fresh interpreter with another PYTHONHASHSEED must agree with this process. The second call of repro passes the same seed as a numpy integer and the same explicit schedule in another form (ints, tuple, numpy array, generator, Fractions).",
    "C13": " State entries also as numpy unsigned / signed scalars and floats (per history).",
    "C14": " History operation update_constrained: update() with a model of the same type that carries ancilla-using constraints (while the target has none of its own); values of a history also as numpy scalars / Fractions.",
    "C15": " Sub-check exact: Fractions and integers beyond 2^53 judged in exact arithmetic; coefficients also as numpy scalars.",
    "C16": " Optionally one linear term with an exact coefficient (2^62+1, 2^53+1, a Fraction) that must come through subs() unchanged in type and value.",
    "C17": " Size sequences also shrinking and zig-zag (what a call keeps for the next one is exercised by a smaller model afterwards); schedule forms as in C11.",
}
for _k, _v in _ADD.items():
    CHECKS[_k]["text"] = CHECKS[_k]["text"] + _v

# further additions of session 3 (round 7 of the seeded changes)
_ADD2 = {
    "C01": " One monomial may be entered a second time with its labels in another order.",
    "C02": " Warning filters installed by the library persist within a case; optional prelude of rejected model descriptions; is_solution_valid also on a solution over the model's own variables; big-M record-only shape.",
    "C03": " Same additions as C02.",
    "C05": " Value functions also on assignments of exactly the variables present in the terms; quadratic types must raise KeyError for keys of three distinct variables (constructor, item assignment, +=); exact big-integer evaluation.",
    "C08": " Optional set_mapping before the constraints, explicit bounds modes, whole-pipeline magnitude scaling, a record-only big-M constraint judged through solve_bruteforce, template term order reversal.",
    "C09": " Sub-check stale (models derived from one that still reports a cancelled variable; loose demand), user-subclass mode, the valid callback checks that the model reads as passed in, mutually unorderable labels for plain-dict inputs, mixed exact magnitudes.",
    "C10": " Penalty weights also handed positionally to solve_bruteforce; SetCover weight 0, large-number NumberPartitioning with exact arg-min selection, GraphPartitioning degree attribute on simple graphs.",
    "C11": " Labelled models with a past (clear + rebuild), cancelled variables holding the lowest mapping integers, models derived by copy / constructor / arithmetic identity, one magnitude class per model.",
    "C12": " Seeds beyond the C int range (refused or reproducible across a clock second), re-heating pattern in the distribution test, magnitude classes.",
    "C13": " Three-step chains (state-setting operation, in-place merge, best-recomputing removal), near-equal values, growth cap.",
    "C14": " Derived models by out-of-place arithmetic and the copy constructor; magnitude cap.",
    "C15": " Quadratic extrema on raw dicts whose keys squash to two labels; a third of the anneal_temperature_range calls under warnings-as-errors and numpy traps.",
    "C16": " Whole-model magnitude scaling (2^-45, 2^30).",
    "C17": " Identical seeded calls inside one sequence must agree; enumerated sub-check repeat with 10^5 spins; the generator additions of C11.",
    "C18": " A third of the sources from the order-upsetting label pools; directed merge term.",
    "C19": " Stale variables / stale degree in every catalogue slot; explicit zero constants in solver dict arguments; cost guard; info models whose ancilla counter exceeds the remaining variables (strip) and with a recorded-only constraint carrying a sympy coefficient (symcon).",
}
for _k, _v in _ADD2.items():
    CHECKS[_k]["text"] = CHECKS[_k]["text"] + _v
