SETUP = ("/venv/bin/python -c 'import hypothesis' 2>/dev/null || "
         "/venv/bin/pip install --no-index --find-links /opt/veriftools/wheels hypothesis")
HOOKS = {
    "guard": "JTIOSUE_QUBOVERT_VERIF",
    "enable": "./check exports JTIOSUE_QUBOVERT_VERIF=1 and imports an overlay copy of /repo/qubovert rebuilt under /verif/.build/ on every run",
    "baseline_off_cmd": "/verif/tools/baseline.sh",
    "source_commits": [],
    "add_only": True,
}
ENGINES = [
    {"name": "hypothesis-sharded", "path": "/verif/vf/common.py",
     "serves_properties": [],
     "kind_free_text": "Hypothesis 6.168 strategies producing plain-data specs, run in 12-16 forked shards seeded from VERIF_SEED; pure run_case(spec) oracles against an independent reference evaluator (vf/ref.py); shrunk failures are written as replay JSON"},
]
NOTES = ("All checks: ./check <ID> [--tier quick|thorough] [--replay FILE]. Exit 0 held / 1 VIOLATION / 2 harness error. "
         "Every run copies $VERIF_REPO/qubovert (default /repo) into /verif/.build/<ID>-plain and recompiles the C extension from the working tree.")
NOT_YET = "check not built yet in this session (planned, see DESIGN.md section 4); not claimed until it is green on the unchanged tree and kills its mutants"
NOT_APPLICABLE = {}

CHECKS = {
    "C13": {
        "text": "Model-based history testing: generated histories of 30 AnnealResults list operations are interpreted against a plain-list model; content equality and the best-invariant are checked after every step. Exploration, not proof: bounded history length (40) and operand pools.",
        "design_ref": "DESIGN.md section 4, C13",
        "note": "Trusted: python list semantics as the model; Hypothesis generation. Operands restricted to what a plain list accepts.",
        "technique": "property-based testing: model-based (stateful) history generation with Hypothesis, list-model oracle, shrinking to replay JSON",
    },
}
CHECKS["C14"] = {
    "text": "Model-based history testing of all ten model types: generated edit histories (item assignment incl. zeros, augmented assignment, in-place arithmetic with scalars/dicts/models, update, clear, refresh, comparison constraints, copies) with bookkeeping invariants checked against the stored polynomial after every step, truth-table validation (min over ancillas == model) of every to_* form at generated points, and an ancilla-reuse probe. Exploration within bounded histories (<=30 steps, <=5 labels).",
    "design_ref": "DESIGN.md section 4, C14",
    "note": "Trusted: vf/ref.py evaluator and numpy truth tables; the model's stored dict as ground truth for 'true' variables/degree. Reduced forms compared with tolerance 1e-9*sum|coef|.",
    "technique": "property-based testing: model-based (stateful) edit-history generation with Hypothesis, invariant-after-every-step and truth-table oracles, shrinking to replay JSON",
}
CHECKS["C11"] = {
    "text": "Generated calls of the four annealers over every documented model type (dicts with unsorted/repeated labels, labelled types incl. stale bookkeeping, Matrix types with gaps), schedules, temperature ranges, initial states, orders, seeds; every returned result is judged by an independent evaluator (count, types, spin flag, state keys, domain, value == model(state), best == min, arguments unchanged). Exploration within bounded sizes (<=6 variables, degree <=5).",
    "design_ref": "DESIGN.md section 4, C11",
    "note": "Trusted: vf/ref.py evaluator; gcc -O2 build of the extension compiled from the working tree on every run. Float-coefficient models compared with tolerance 1e-9*sum|coef|, dyadic ones exactly.",
    "technique": "property-based testing: Hypothesis-generated annealer calls judged by an independent reference evaluator (differential oracle), shrinking to replay JSON",
}
CHECKS["C12"] = {
    "text": "Three generated sub-checks: (1) repeat-call equality under an integer seed; (2) zero-temperature schedules: no result above the initial value, and exact equality with a reference in-order sweep on tie-free Matrix instances; (3) positive temperatures: chi-square comparison (alpha 1e-9, confirmed on 3 further seeds) of 2*10^5 final states with the exact k-sweep distribution of reference single-spin Metropolis kernels for in-order and random visiting. Statistical exploration: power ~2% total variation per instance.",
    "design_ref": "DESIGN.md section 4, C12",
    "note": "Trusted: reference Metropolis transition matrices built from vf/ref.py energies (numpy), mpmath chi-square tail, plain build of the extension from the working tree. Ties at T=0 excluded (not pinned by the statement).",
    "technique": "property-based testing: Hypothesis-generated models/schedules with a reference-model oracle (exact Markov-chain distribution, reference sweep) and a statistical goodness-of-fit test",
}
CHECKS["C17"] = {
    "text": "Coverage-measured fuzzing of the C kernels through the Python API: Hypothesis generates sequences of 1..6 annealer calls skewed to index/buffer-stressing shapes, executed in one persistent child process against a clang ASan+UBSan build of the extension compiled from the working tree; sanitizer reports or abnormal death fail the case and are shrunk; C11's oracle runs on every result and history-dependent failures are reported. gcov line coverage of the five C files is measured and written to the evidence.",
    "design_ref": "DESIGN.md section 4, C17",
    "note": "Trusted: clang 14 sanitizer runtimes (ASan, UBSan incl. signed overflow, no-recover), LD_PRELOAD into stock CPython, detect_leaks=0. Not reachable: 32-bit size overflow needing > 8 GB.",
    "technique": "fuzzing: Hypothesis-generated call sequences against an ASan/UBSan-instrumented build in a persistent worker, with shrinking; gcov-measured coverage",
}
for e in ENGINES:
    e["serves_properties"] = sorted(CHECKS)
