#!/venv/bin/python
"""Regenerate MANIFEST.json from tools/manifest_data.py and validate it."""
import json, os, sys
HERE = os.path.dirname(os.path.dirname(os.path.abspath(__file__)))
sys.path.insert(0, os.path.join(HERE, "tools"))
import manifest_data as md

checks = []
for pid, d in sorted(md.CHECKS.items()):
    checks.append({
        "property_id": pid,
        "quick_cmd": "./check %s --tier quick" % pid,
        "thorough_cmd": "./check %s --tier thorough" % pid,
        "evidence_file": "/verif/evidence/%s.json" % pid,
        "replay_cmd_template": "./check %s --replay {path}" % pid,
        "engine": d.get("engine", "hypothesis-sharded"),
        "level_claimed": {"category": "exploration", "text": d["text"], "design_ref": d["design_ref"]},
        "level_note": d["note"],
        "technique": d["technique"] + ("" if pid in md.CGF_OFF else
                                       "; the thorough tier adds a coverage-guided fuzzing campaign (atheris/libFuzzer over the same strategies and oracles, library byte code instrumented)"),
    })
props = [json.loads(l)["id"] for l in open(os.path.join(HERE, "properties.jsonl"))]
na = [{"property_id": p, "reason": md.NOT_APPLICABLE.get(p, md.NOT_YET)} for p in props if p not in md.CHECKS]
for e in md.ENGINES:
    if e["name"] == "hypothesis-sharded":
        e["serves_properties"] = sorted(md.CHECKS)
    elif e["name"] == "atheris-coverage-guided":
        e["serves_properties"] = [p for p in sorted(md.CHECKS) if p not in md.CGF_OFF]
m = {
    "version": 1,
    "setup_cmd": md.SETUP,
    "hooks": md.HOOKS,
    "engines": md.ENGINES,
    "checks": checks,
    "notes": md.NOTES,
    "not_applicable": na,
}
with open(os.path.join(HERE, "MANIFEST.json"), "w") as f:
    json.dump(m, f, indent=1)
    f.write("\n")
try:
    import jsonschema
    jsonschema.validate(m, json.load(open("/root/.vp/MANIFEST.schema.json")))
    print("MANIFEST.json valid: %d checks, %d not_applicable" % (len(checks), len(na)))
except ImportError:
    print("jsonschema not importable here; wrote MANIFEST.json unvalidated")
