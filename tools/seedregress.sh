#!/bin/bash
# tools/seedregress.sh <lane> <nlanes> [glob]: re-run confirmed seeds (default all) against their own property's check (quick tier)
L="$1"; N="$2"; G="${3:-*}"; i=0
for d in /verif/seeded/$G/; do
  n=$(basename "$d"); i=$((i+1))
  [ $((i % N)) -eq "$L" ] || continue
  /verif/tools/seedcheck.py "$d" "$n" --no-tests > /tmp/seedregress_$n.log 2>&1
  /venv/bin/python - "$n" <<'PY'
import json,sys
n=sys.argv[1]
c=json.load(open('/verif/seeded/%s/meta.json'%n))['confirmed_by_me']
own=n.split('-')[0]
v=c['checks'].get(own,{})
print(n, 'demo', c.get('demo_unchanged_rc'), c.get('demo_changed_rc'), v.get('verdict'), (v.get('lines') or [''])[-1][:100], flush=True)
PY
  rm -f /tmp/seedregress_$n.log
done
