#!/bin/bash
# Run the repository's pinned test suite with the verification guard OFF and
# compare with /root/.vp/BASELINE.json (398 stable passes expected).
REPO="${VERIF_REPO:-/repo}"
OUT="$(mktemp /tmp/qv_baseline.XXXXXX.xml)"
cd "$REPO" || exit 2
env -u JTIOSUE_QUBOVERT_VERIF /venv/bin/python -m pytest -ra -q -p no:cacheprovider --timeout=900 \
    --continue-on-collection-errors --junitxml="$OUT" "$@" > "$OUT.log" 2>&1
/venv/bin/python - "$OUT" <<'PY'
import json, sys, xml.etree.ElementTree as ET
base = json.load(open('/root/.vp/BASELINE.json'))
want = set(base['stable_pass'])
got = set()
for tc in ET.parse(sys.argv[1]).getroot().iter('testcase'):
    ok = not any(ch.tag in ('failure', 'error', 'skipped') for ch in tc)
    if ok:
        got.add('%s::%s' % (tc.get('classname'), tc.get('name')))
missing = sorted(want - got)
print('baseline: %d/%d stable tests pass' % (len(want & got), len(want)))
for m in missing[:20]:
    print('  MISSING', m)
sys.exit(1 if missing else 0)
PY
rc=$?
rm -f "$OUT" "$OUT.log"
exit $rc
