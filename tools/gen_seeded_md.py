#!/venv/bin/python
"""Write SEEDED.md from seeded/*/meta.json."""
import json, os, glob
ROOT = os.path.dirname(os.path.dirname(os.path.abspath(__file__)))
NOTES = {
    "C03-2B": "outside C03's statement (needs the caller to mutate the argument object after the call); it is C19's clause "
              "'recorded constraints independent of the argument' and C19 catches it",
    "C06-3B": "a copy sharing its constraint lists is not observable through one logical-constraint call (C06's domain); "
              "caught by C19 (copy independence) and C14 (copy_not_independent)",
    "C08-3A": "needs the caller to mutate the constraint object after passing it; C19's clause, caught by C19",
    "C02-4B": "outside C02's statement (the recorded constraint aliases the caller's PUBO/PCBO object; shows only when the caller edits it "
              "afterwards); C19's clause, caught by C19",
    "C08-4A": "the same aliasing as C02-4B seen through the README pipeline (the caller re-uses and edits the expression to build a second "
              "model); C19's clause, caught by C19",
    "C14-3B": "set_mapping keeping the caller's dict: set_mapping is not one of C14's edits; it is C19's aliasing clause, caught by C19",
    "C09-3A": "NOT caught, deliberately (same ambiguity as C09-2A): assigning 0 to a new label registers it as a reported "
              "variable; bookkeeping stays a consistent upper bound (C14 holds) and the solver returns assignments over the "
              "reported variables, which the unchanged library also does for models with cancelled terms",
    "C04-7A": "NOT caught, deliberately: the change makes the Matrix types accept keys with a negative label after the first position, "
              "which the documentation says are rejected (KeyError); every documented input behaves as before, and C04 quantifies over "
              "valid models only",
    "C06-7B": "NOT caught, deliberately: an operand whose keys are not tuples ({'x1': 1}) used to be rejected (KeyError) and is now "
              "accepted; no documented operand is affected",
    "C19-7C": "NOT caught, deliberately: an initial_state that lacks a variable used to be rejected (KeyError) and is now silently "
              "completed in the caller's dict; for every documented (complete) initial_state nothing changes",
    "C16-7C": "caught by C14 (reduction ancilla collides with a mapped label once a variable's only term cancelled); C16's own comparison "
              "of reduced forms is only made when the numeric and the substituted model have the same terms",
    "C09-7B": "the change makes QUSO accept a key of three distinct variables; C05's clause (quadratic types must raise KeyError), caught by C05",
    "C01-7B": "reduction-free spin forms lose a coefficient when one monomial is stored under two key orders; C04's clause (conversions "
              "without reduction preserve the function), caught by C04 and C05",
    "C02-8C": "NOT caught, deliberately: it needs suppress_warnings=True on a constraint that cannot be satisfied; the statement's "
              "carve-out is tied to the warning, which the caller has switched off - and the unchanged library itself adds a penalty "
              "below lam (and no warning) for lt_zero with min P = 0 under suppress_warnings=True, so nothing is pinned there",
    "C19-8B": "missed at first; C19's info / alias models now may carry a recorded-only constraint with a sympy coefficient (symcon)",
    "C09-8B": "Problem.solve_bruteforce no longer forwards positional penalty weights: C10's clause (problem-specific solve_bruteforce), "
              "caught by C10",
    "C09-5C": "NOT caught, deliberately (the same change as C09-2A, written independently): Matrix models whose terms cancelled are "
              "enumerated over their reported variables, which is what the labelled types of the unchanged library do",
    "C09-2A": "NOT caught, deliberately: for a Matrix model whose terms cancelled the change returns assignments over the "
              "*reported* variables instead of the variables in the keys; the labelled types of the unchanged library already "
              "do exactly that, so 'the model's variables' is not pinned for stale models and both readings are accepted",
}
rows = []
for d in sorted(glob.glob(os.path.join(ROOT, "seeded", "*"))):
    mp = os.path.join(d, "meta.json")
    if not os.path.exists(mp):
        continue
    m = json.load(open(mp))
    c = m.get("confirmed_by_me", {})
    checks = c.get("checks", {})
    caught = ["%s (%s)" % (k, (v.get("lines") or ["", ""])[-1].strip().replace("sub=", "").replace(" kind=", ": ") if v["verdict"] == "CAUGHT" else "")
              for k, v in checks.items() if v["verdict"] == "CAUGHT"]
    missed = [k for k, v in checks.items() if v["verdict"] != "CAUGHT"]
    hist = c.get("history", [])
    first_missed = any(any(v.get("verdict") == "MISSED" for v in (h.get("checks") or {}).values()) for h in hist)
    rows.append((os.path.basename(d), m.get("title", ""), m.get("needs_to_manifest", ""),
                 "yes" if c.get("demo_unchanged_rc") == 0 and c.get("demo_changed_rc") not in (0, None) else "NO",
                 "398/398" if c.get("tests_pass") else "?", "; ".join(caught) or "-", ", ".join(missed) or "-",
                 NOTES.get(os.path.basename(d), "missed at first; check strengthened" if first_missed else "")))
out = ["# Independently seeded changes and which check catches which",
       "",
       "Each change was written by a fresh sub-agent that was given only the text of one property and its own scratch",
       "git worktree of /repo (nothing from /verif), and was asked for a change that still passes the 398 pinned tests",
       "but breaks the property in a way that needs something specific to manifest.  `tools/seedcheck.py` then confirmed,",
       "in a fresh scratch worktree of /repo HEAD: the demonstration passes on the unchanged tree and fails on the changed",
       "one, the pinned suite still passes with the change (`tools/baseline.sh`), and ran the quick tier of the property's",
       "check with `VERIF_REPO` pointing at the changed tree.  Patch, demonstration and meta data: `seeded/<name>/`.",
       "No seeded change is ever committed to /repo.",
       "",
       "| Seed | Change | Needs to manifest | demo ok/fails | tests | caught by (sub-check: violation kind) | not caught by | note |",
       "|---|---|---|---|---|---|---|---|"]
for r in rows:
    out.append("| " + " | ".join(str(x).replace("|", "/").replace("\n", " ")[:420] for x in r) + " |")
out.append("")
out.append("%d seeded changes confirmed; %d caught by the quick tier of a registered check (%d by their own property's check)." % (
    len(rows), sum(1 for r in rows if r[5] != "-"),
    sum(1 for r in rows if r[5].startswith(r[0].split("-")[0]) or (r[0].split("-")[0] + " (") in r[5])))
# which sub-check caught how many of the changes (own property's check)
import collections, re
per = collections.Counter()
for d in sorted(glob.glob(os.path.join(ROOT, "seeded", "*"))):
    mp = os.path.join(d, "meta.json")
    if not os.path.exists(mp):
        continue
    m = json.load(open(mp))
    own = os.path.basename(d).split("-")[0]
    v = (m.get("confirmed_by_me", {}).get("checks") or {}).get(own)
    if not v or v.get("verdict") != "CAUGHT":
        continue
    line = (v.get("lines") or [""])[-1]
    mm = re.search(r"sub=(\S+)", line)
    if mm:
        sub = mm.group(1)
    elif "/corpus/" in line:
        sub = "(corpus replay)"
    else:
        sub = "?"
    per[(own, sub)] += 1
out.append("")
out.append("## Seeded changes caught per sub-check (own property's check, last confirmation run)")
out.append("")
out.append("| Check | sub-check | changes caught |")
out.append("|---|---|---|")
for (own, sub), n in sorted(per.items()):
    out.append("| %s | %s | %d |" % (own, sub, n))
open(os.path.join(ROOT, "SEEDED.md"), "w").write("\n".join(out) + "\n")
print("\n".join(out[-2:]))
