#!/venv/bin/python
"""Confirm a seeded change and run the registered checks against it.

tools/seedcheck.py <seed dir with patch.diff, demo.py, meta.json> <name> [--checks C01,C14] [--no-tests]

Steps (all in a scratch worktree of /repo under /tmp, removed afterwards):
  1. demo.py passes on the unchanged tree;
  2. patch applies; extension rebuilt in place; demo.py fails on the changed tree;
  3. the pinned test suite still passes on the changed tree (tools/baseline.sh);
  4. every listed check (default: the property's own) is run with VERIF_REPO
     pointing at the changed tree; quick tier.
The result is written to /verif/seeded/<name>/ (patch.diff, demo.py, meta.json).
"""
import json
import os
import shutil
import subprocess
import sys
import tempfile
import time

ROOT = os.path.dirname(os.path.dirname(os.path.abspath(__file__)))
PY = "/venv/bin/python"


def sh(cmd, cwd=None, env=None, timeout=3600):
    r = subprocess.run(cmd, cwd=cwd, env=env, capture_output=True, text=True, timeout=timeout)
    return r.returncode, r.stdout, r.stderr


def build_ext(tree):
    rc, out, err = sh([PY, "setup.py", "-q", "build_ext", "--inplace"], cwd=tree)
    shutil.rmtree(os.path.join(tree, "build"), ignore_errors=True)
    return rc == 0, err[-500:]


def main():
    args = sys.argv[1:]
    checks, tests = None, True
    if "--checks" in args:
        i = args.index("--checks")
        checks = args[i + 1].split(",")
        del args[i:i + 2]
    if "--no-tests" in args:
        args.remove("--no-tests")
        tests = False
    src, name = args[0], args[1]
    meta = json.load(open(os.path.join(src, "meta.json")))
    prop = meta.get("property") or name.split("-")[0]
    checks = checks or [prop]
    tmp = tempfile.mkdtemp(prefix="seedrun_")
    tree = os.path.join(tmp, "tree")
    res = {"name": name, "property": prop}
    try:
        rc, out, err = sh(["git", "-C", "/repo", "worktree", "add", "-q", "--detach", tree, "HEAD"])
        if rc:
            print("worktree failed", err)
            return 2
        ok, msg = build_ext(tree)
        env = dict(os.environ)
        env.pop("JTIOSUE_QUBOVERT_VERIF", None)
        demo = os.path.abspath(os.path.join(src, "demo.py"))
        rc0, o0, e0 = sh([PY, demo], cwd=tree, env=env, timeout=600)
        res["demo_unchanged_rc"] = rc0
        rc, out, err = sh(["git", "-C", tree, "apply", os.path.join(os.path.abspath(src), "patch.diff")])
        res["patch_applies"] = rc == 0
        if rc:
            print("patch does not apply:", err)
        ok, msg = build_ext(tree)
        res["builds"] = ok
        rc1, o1, e1 = sh([PY, demo], cwd=tree, env=env, timeout=600)
        res["demo_changed_rc"] = rc1
        res["demo_changed_tail"] = (o1 + e1)[-400:]
        if tests:
            t0 = time.time()
            rc, out, err = sh([os.path.join(ROOT, "tools", "baseline.sh")], env=dict(env, VERIF_REPO=tree), timeout=3000)
            res["tests"] = [l for l in out.splitlines() if l.startswith(("baseline", "  MISSING"))][:6]
            res["tests_pass"] = rc == 0
            res["tests_s"] = round(time.time() - t0)
        res["checks"] = {}
        for c in checks:
            t0 = time.time()
            rc, out, err = sh([os.path.join(ROOT, "check"), c, "--tier", "quick"],
                              env=dict(os.environ, VERIF_REPO=tree), timeout=3000)
            lines = [l for l in out.splitlines() if l.startswith(("VIOLATION", "OK", "  sub=", "KNOWN"))]
            res["checks"][c] = {"rc": rc, "verdict": {0: "MISSED", 1: "CAUGHT"}.get(rc, "ERROR"),
                                "lines": lines[:3], "s": round(time.time() - t0)}
            if rc not in (0, 1):
                res["checks"][c]["stderr"] = err[-800:]
        dst = os.path.join(ROOT, "seeded", name)
        os.makedirs(dst, exist_ok=True)
        if not tests and os.path.exists(os.path.join(dst, "meta.json")):
            # keep the earlier confirmation that the pinned suite passes with the change
            try:
                prev = json.load(open(os.path.join(dst, "meta.json"))).get("confirmed_by_me", {})
                for k in ("tests", "tests_pass", "tests_s"):
                    if k in prev:
                        res[k] = prev[k]
                res["history"] = prev.get("history", [])
                merged = dict(prev.get("checks") or {})
                for k, v in res["checks"].items():
                    if k in merged and merged[k].get("verdict") != v.get("verdict"):
                        res["history"] = res["history"] + [{"checks": {k: merged[k]}}]
                    merged[k] = v
                res["checks"] = merged
            except Exception:
                pass
        if os.path.realpath(src) != os.path.realpath(dst):
            shutil.copy(os.path.join(src, "patch.diff"), dst)
            shutil.copy(demo, dst)
        meta["confirmed_by_me"] = res
        meta["ran"] = ("scratch worktree of /repo HEAD; demo.py on unchanged tree (must exit 0) and on the patched tree (must exit != 0); "
                       "tools/baseline.sh on the patched tree (398 pinned tests); ./check <ID> --tier quick with VERIF_REPO=<patched tree>")
        json.dump(meta, open(os.path.join(dst, "meta.json"), "w"), indent=1)
        print(json.dumps(res, indent=1))
        return 0
    finally:
        sh(["git", "-C", "/repo", "worktree", "remove", "--force", tree])
        shutil.rmtree(tmp, ignore_errors=True)
        sh(["git", "-C", "/repo", "worktree", "prune"])


if __name__ == "__main__":
    sys.exit(main())
