#!/bin/bash
# Run every quick check once (sequentially, VERIF_SEED=1) on /repo and validate the evidence files it wrote.
cd "$(dirname "$0")/.." || exit 2
fail=0
for i in 01 02 03 04 05 06 07 08 09 10 11 12 13 14 15 16 17 18 19; do
  s=$(date +%s); VERIF_SEED=1 ./check C$i --tier quick > /tmp/refresh_C$i.log 2>&1; rc=$?
  echo "C$i rc=$rc $(( $(date +%s)-s ))s $(tail -n 1 /tmp/refresh_C$i.log | cut -c1-120)"
  [ $rc -eq 0 ] || fail=1
done
python3-vt - <<'PY' || fail=1
import json, glob, sys, jsonschema
sch = json.load(open('/root/.vp/EVIDENCE.schema.json'))
bad = 0
for f in sorted(glob.glob('/verif/evidence/C*.json')):
    d = json.load(open(f))
    try:
        jsonschema.validate(d, sch)
        c = d['coverage']
        assert c['evaluations'] >= 1 and c['distinct_nontrivial'] >= 2 and len(c['samples']) >= 1 and d.get('violations', 0) == 0, (c['evaluations'], c['distinct_nontrivial'])
    except Exception as e:
        bad += 1
        print("EVIDENCE PROBLEM", f, repr(e)[:300])
print("evidence files valid:", bad == 0)
sys.exit(1 if bad else 0)
PY
exit $fail
