#!/bin/bash
# tools/seedbatch.sh <round> <ID>...   confirm /tmp/seeds<round>/<ID>/{A,B,C} with seedcheck -> seeded/<ID>-<round><X>
R="$1"; shift
for ID in "$@"; do
  for X in A B C; do
    S=/tmp/seeds$R/$ID/$X
    [ -f "$S/patch.diff" ] && [ -f "$S/demo.py" ] && [ -f "$S/meta.json" ] || { echo "$ID-$R$X incomplete"; continue; }
    /verif/tools/seedcheck.py "$S" "$ID-$R$X" > /tmp/seeds$R/$ID-$X.seedcheck.log 2>&1
    /venv/bin/python - "$ID-$R$X" <<'PY'
import json,sys
n=sys.argv[1]
try:
    c=json.load(open('/verif/seeded/%s/meta.json'%n))['confirmed_by_me']
    print(n, 'demo', c.get('demo_unchanged_rc'), c.get('demo_changed_rc'), 'tests', c.get('tests_pass'), {k:(v['verdict'], (v['lines'] or [''])[-1][:110]) for k,v in c.get('checks',{}).items()})
except Exception as e:
    print(n, 'ERROR', e)
PY
  done
done
