"""C08 — the constrained optimum survives penalisation, reduction and solution conversion.

A witness assignment x* is drawn first; 1..3 integer-valued constraints are built
so that they hold at x* (comparison constraints from random integer polynomials
shifted so that the relation holds at x*; on PCBO also logical constraints whose
operand literals are chosen from x*).  Every weight is (max f - min f) + delta with
max / min f from the reference truth table of the objective f.

Oracle (never the library's own solver / ``value`` / ``is_solution_valid``):
reference enumeration of all assignments of the user labels gives the feasible
set and F* = min f over it.
 (1) ``solve_bruteforce()`` (and every element with ``all_solutions=True``) is
     feasible and has f == F*;
 (2) for the model itself taken as an unconstrained polynomial over variables and
     ancillas, and for to_pubo / to_puso / to_qubo / to_quso (default reduction
     penalty): the truth-table minimum equals F* and every arg-min, passed through
     ``convert_solution(s, spin=<form is spin>)`` and restricted to the user labels,
     is feasible with f == F*;
 (3) ``remove_ancilla_from_solution(sol)`` == sol without the keys named ``__a<digits>``.
"""
import re
import warnings

import numpy as np
from hypothesis import strategies as st

from . import gen, ref
from .common import Sub, Violation, lib

ID = "C08"
RULE = ("kind in {PCBO,PCSO} x label pool (ints, negative ints, str incl. '__b' '_a0' '__', tuples) with n in 2..4 x objective "
        "(<=5 terms, degree<=3, dyadic/integer coefficients, usually one term of degree 3) x witness x* (free / worst point of f / "
        "second best) x 1..3 constraints holding at x*: eq ne lt le gt ge of integer polynomials (<=3 terms, degree<=2) shifted to "
        "hold at x* with slack 0..2; optionally 'x_l keeps its witness value' on a label where the unconstrained optimum differs; "
        "on PCBO also the 16 logical methods with literals chosen from x* and special-form templates (sum x<=1, 1<=x+y, x<=y, "
        "non-negative<=K; as le or negated as ge) x log_trick per constraint x weight=(max f-min f)+delta, delta in {1/2,1,5}; then "
        "solve_bruteforce (single / all; repeated with weak weights), the model itself and to_pubo/to_puso/to_qubo/to_quso with the "
        "default penalty. Non-trivial = >=2 constraints, >=1 of them introduced ancillas, and a quadratic form with >=1 reduction "
        "ancilla was checked by truth table. Distinct = distinct spec hash.")
ASSUMPTIONS = [
    "truth tables only for forms with <= 18 variables in total (too_big counted); solve_bruteforce only for models with <= 12 variables",
    "at most 256 arg-min rows per form are converted and judged (the rest is counted); arithmetic is exact (dyadic coefficients), "
    "a guard tolerance of 1e-9 * sum|coef| is applied to table comparisons",
    "a user label missing from a returned / converted solution (the model has no term with it) is judged strictly: every completion "
    "must be feasible; f must not depend on it",
    "ancilla names are exactly the str labels matching __a<digits>; user labels never start with '__a' (reserved by the documentation)",
    "logical constraints use literal operands (label or 1 - label); XOR on > 2 operands is parity (documented convention)",
    "part (1) is repeated on a copy built with weak weights (1/8 or 1/2): the PCBO/PCSO class docstring states that "
    "solve_bruteforce gives the correct constrained result also when the multipliers are too small (it filters by "
    "is_solution_valid); parts (2) and (3) always use the strong weights of the statement; skipped (counted) when a weak "
    "penalty cancels an objective term exactly so that the weak model loses a variable",
]

RELS = ["eq", "ne", "lt", "le", "gt", "ge"]
LOGIC_METHODS = ["eq_AND", "OR", "eq_XOR", "NAND", "eq_NOR", "XNOR", "eq_BUFFER", "NOT",
                 "AND", "eq_OR", "XOR", "eq_NAND", "NOR", "eq_XNOR", "BUFFER", "eq_NOT"]
_BASE = {"AND": ("AND", False), "NAND": ("AND", True), "OR": ("OR", False), "NOR": ("OR", True),
         "XOR": ("XOR", False), "XNOR": ("XOR", True), "BUFFER": ("BUFFER", False), "NOT": ("BUFFER", True)}
MAX_TABLE_VARS = 18
MAX_BRUTE_VARS = 12
MAX_ARGMIN = 256

POOLS = [
    [0, 1, 2, 3],
    ["a", "b", "c", "d"],
    ["__b", "_a0", "x", "__"],
    [0, "a", ("x", 1), -3],
    ["_a0", 1, "__b", ("__a",)],
    ["x__a0", ("__a1", 0), "q__a12b", "a__a"],      # contain, but do not start with, an ancilla-like name
    [3, 1, 4, 15],
    [("x", 0), ("x", 1), "z", 2],
]

_ANC = re.compile(r"__a\d+\Z")


def _is_anc(l):
    return isinstance(l, str) and _ANC.match(l) is not None


# ---------------------------------------------------------------------------
# strategies

def _cmp_constraint(labels):
    return st.fixed_dictionaries({
        "t": st.just("cmp"),
        "rel": gen.pick(("ne", 2), ("lt", 2), ("le", 2), ("gt", 2), ("ge", 2), ("eq", 3)),
        "P": st.integers(0, 4).flatmap(lambda k: gen.poly_strategy(
            labels, (1, 2, 2, 3, 3)[k], 2, gen.SMALL_INT_COEFS, offset=False, min_terms=(1, 2, 2, 3, 3)[k])),
        "slack": st.sampled_from([0, 0, 0, 1, 2]),
        "sign": st.sampled_from([1, -1]),
        "log_trick": st.booleans(),
        "delta": st.sampled_from([0.5, 1, 5]),
        "bounds": gen.pick((None, 3), ("exact", 1), ("loose", 1)),
    })


def _template_constraint(labels):
    """PCBO: shapes that the library treats by special-case penalties (sum x <= 1, 1 <= x + y, x <= y,
    non-negative polynomial <= K with unary slack); the labels are ordered by the strategy, the
    concrete polynomial is fitted to the witness in ``_plan_constraint``."""
    return st.fixed_dictionaries({
        "t": st.just("tmpl"),
        "name": gen.pick(("sum_le_1", 3), ("or2", 1), ("x_le_y", 1), ("nonneg_le_K", 2), ("z_plus_xy_eq0", 1)),
        "labs": st.permutations(labels).map(list),
        "coefs": st.lists(st.sampled_from([1, 1, 2]), min_size=3, max_size=3),
        "slack": st.sampled_from([0, 0, 1]),
        "as_ge": st.booleans(),
        "log_trick": st.booleans(),
        "delta": st.sampled_from([0.5, 1, 5]),
        # the same polynomial with its terms inserted in the opposite order (dict order is not part of a polynomial)
        "rev": st.booleans(),
    })


def _logic_constraint(labels):
    operand = st.tuples(st.sampled_from(labels), st.booleans()).map(list)
    return st.fixed_dictionaries({
        "t": st.just("logic"),
        "m": gen.pick(*[(m, 1) for m in LOGIC_METHODS]),
        "positive": st.booleans(),
        "a": st.sampled_from(labels),
        "ops": st.lists(operand, min_size=2, max_size=3),
        "delta": st.sampled_from([0.5, 1, 5]),
    })


def _place_witness(spec):
    """Generator post-processing (pure): in mode 'worst' / 'second' the witness is moved to the
    assignment where the objective is largest / second smallest, so that the constraints built
    around it tend to exclude the unconstrained optimum.  The stored spec holds the final witness."""
    mode = spec.pop("witness_mode")
    pin, as_ineq, log_trick, delta = spec.pop("pin")
    labels, spin = spec["labels"], spec["kind"] == "PCSO"
    f = gen.terms_dict([[tuple(k), v] for k, v in spec["objective"]])
    vals = [(ref.ref_value(f, ref.assignment(labels, r, spin)), r) for r in range(1 << len(labels))]
    vals.sort()
    if mode != "free":
        distinct = sorted({v for v, _ in vals})
        if mode == "worst":
            r = vals[-1][1]
        else:
            target = distinct[1] if len(distinct) > 1 else distinct[0]
            r = [rr for v, rr in vals if v == target][0]
        spec["witness"] = [(r >> i) & 1 for i in range(len(labels))]
    if pin:
        # one more constraint "x_l keeps its witness value" on a label where the (first) unconstrained
        # optimum differs from the witness, as an equality or as the binding inequality
        opt = vals[0][1]
        diff = [i for i in range(len(labels)) if ((opt >> i) & 1) != spec["witness"][i]]
        if diff:
            i = diff[0]
            wv = (1 - 2 * spec["witness"][i]) if spin else spec["witness"][i]
            ov = (1 - 2 * ((opt >> i) & 1)) if spin else ((opt >> i) & 1)
            rel = "eq" if not as_ineq else ("le" if wv < ov else "ge")
            c = {"t": "cmp", "rel": rel, "P": [[(labels[i],), 1]], "slack": 0, "sign": 1,
                 "log_trick": log_trick, "delta": delta}
            spec["constraints"] = list(spec["constraints"])[:2] + [c]
    return spec


def pipeline_specs():
    def for_kind(kind):
        def for_labels(labels):
            n = len(labels)
            cons = [_cmp_constraint(labels)] * (2 if kind == "PCBO" else 1)
            if kind == "PCBO":
                cons = cons + [_logic_constraint(labels), _logic_constraint(labels), _template_constraint(labels)]
            con = st.integers(0, len(cons) - 1).flatmap(lambda i: cons[i])
            return st.fixed_dictionaries({
                "kind": st.just(kind),
                "labels": st.just(labels),
                "objective": st.builds(
                    lambda hi, rest, use: ([hi] if use else []) + rest,
                    st.tuples(gen.key_strategy(labels, 3, min_deg=min(3, n)), gen.MIXED_COEFS).map(list),
                    gen.poly_strategy(labels, 4, 3, gen.MIXED_COEFS, min_terms=1),
                    gen.pick((True, 2), (False, 1))),
                "witness": st.lists(st.integers(0, 1), min_size=n, max_size=n),
                "witness_mode": gen.pick(("worst", 2), ("free", 2), ("second", 1)),
                "pin": st.tuples(st.booleans(), st.booleans(), st.booleans(), st.sampled_from([0.5, 1, 5])),
                "constraints": st.integers(0, 5).flatmap(lambda k: st.lists(
                    con, min_size=(1, 2, 2, 2, 3, 3)[k], max_size=(1, 2, 2, 2, 3, 3)[k])),
                "weak": gen.pick((None, 2), (0.125, 1), (0.5, 1)),
                "early_export": gen.pick((False, 2), (True, 1)),
                "mag": gen.pick((0, 5), (-30, 1), (30, 1)),
                "remap_first": gen.pick((False, 3), (True, 1)),
                # one further integer constraint with huge coefficients (big-M form), recorded with lam = 0: it restricts
                # solve_bruteforce (which filters by is_solution_valid) but adds no penalty, so the forms are not judged
                "bigM": gen.pick((None, 7), ([0, 1], 1), ([1, 0], 1)),
            }).map(_place_witness)
        return st.builds(lambda p, n: list(p[:n]), st.sampled_from(POOLS),
                         gen.pick((4, 3), (3, 2), (2, 1))).flatmap(for_labels)
    return st.sampled_from(["PCBO", "PCSO"]).flatmap(for_kind)


# ---------------------------------------------------------------------------
# reference semantics of the generated constraints

def _gate(family, ts):
    if family == "AND":
        return all(ts)
    if family == "OR":
        return any(ts)
    if family == "XOR":
        return sum(1 for t in ts if t) % 2 == 1
    return bool(ts[0])     # BUFFER


def _force_gate(family, wants, positive):
    """Smallest deterministic change of the drawn operand truth values that makes gate(wants) == positive."""
    wants = list(wants)
    if _gate(family, wants) == positive:
        return wants
    if family == "AND":
        return [True] * len(wants) if positive else wants[:-1] + [False]
    if family == "OR":
        return wants[:-1] + [True] if positive else [False] * len(wants)
    if family == "XOR":
        return wants[:-1] + [not wants[-1]]
    return [positive]


def _literal(label, positive):
    return label if positive else {(): 1, (label,): -1}


def _plan_constraint(c, labels, wbits, spin):
    """Returns (method name, args, kwargs-without-lam, predicate(assignment) -> bool, description,
    labels mentioned by the constraint)."""
    wit = ref.assignment(labels, sum(b << i for i, b in enumerate(wbits)), spin)
    if c["t"] == "cmp":
        rel = c["rel"]
        P = gen.terms_dict([[tuple(k), v] for k, v in c["P"]])
        v = ref.ref_value(P, wit)
        target = {"eq": 0, "ne": c["sign"] * (1 + c["slack"]), "lt": -1 - c["slack"], "le": -c["slack"],
                  "gt": 1 + c["slack"], "ge": c["slack"]}[rel]
        P[()] = P.get((), 0) + (target - v)
        if P[()] == 0:
            del P[()]
        kw = {"suppress_warnings": True}
        if rel != "eq":
            kw["log_trick"] = c["log_trick"]
        bm = c.get("bounds")
        if bm:
            # explicit, valid bounds: the exact range of P over all assignments, or a looser half-integer enclosure
            vals = [ref.ref_value(P, ref.assignment(labels, r, spin)) for r in range(1 << len(labels))]
            lo, hi = min(vals), max(vals)
            kw["bounds"] = (lo, hi) if bm == "exact" else (lo - 1.5, hi + 0.5)
        Pf = dict(P)

        def pred(a, Pf=Pf, rel=rel):
            return ref.REL[rel](ref.ref_value(Pf, a))
        return "add_constraint_%s_zero" % rel, (P,), kw, pred, "%s0 %r" % (rel, P), {l for k in P for l in k}

    if c["t"] == "tmpl":
        labs = [l for l in c["labs"] if l in wit]
        one = [l for l in labs if wit[l] == 1]
        zero = [l for l in labs if wit[l] == 0]
        name = c["name"]
        if name == "or2" and not one:
            name = "x_le_y"
        if name == "z_plus_xy_eq0":
            # z + x*y == 0 (equal signs: the look-alike of the AND form z == x*y); holds where z = 0 and x*y = 0
            if len(zero) >= 2 and len(labs) >= 3:
                z, x_ = zero[0], zero[1]
                y_ = [l for l in labs if l not in (z, x_)][0]
                P = {(z,): c["coefs"][0], (x_, y_): c["coefs"][0]}
                Pf = dict(P)
                if c.get("rev"):
                    P = dict(reversed(list(P.items())))

                def pred(a, Pf=Pf):
                    return ref.ref_value(Pf, a) == 0
                assert pred(wit), (c, P, wit)
                return "add_constraint_eq_zero", (P,), {"suppress_warnings": True}, pred, "eq0[z+xy] %r" % (P,), \
                    {l for k in P for l in k}
            name = "sum_le_1"
        if name == "sum_le_1":                      # sum over S <= 1, S has at most one label that is 1 at x*
            S = (one[:1] + zero)[:3]
            S = [l for l in labs if l in S]
            P = {(l,): 1 for l in S}
            P[()] = -1
        elif name == "or2":                         # 1 <= a + b
            S = [one[0]] + [l for l in labs if l != one[0]][:1]
            P = {(l,): -1 for l in S}
            P[()] = 1
        elif name == "x_le_y":                      # a <= b
            a, b = (labs + labs)[:2]
            if wit[a] > wit[b]:
                a, b = b, a
            P = {(a,): 1, (b,): -1} if a != b else {(a,): 1, (): -1}
        else:                                       # non-negative polynomial <= K
            S = labs[:3]
            P = {(l,): k for l, k in zip(S, c["coefs"])}
            K = sum(k * wit[l] for l, k in zip(S, c["coefs"])) + c["slack"]
            if K:
                P[()] = -K
        rel = "le"
        if c["as_ge"]:
            P, rel = {k: -v for k, v in P.items()}, "ge"
        if c.get("rev"):
            P = dict(reversed(list(P.items())))
        Pf = dict(P)

        def pred(a, Pf=Pf, rel=rel):
            return ref.REL[rel](ref.ref_value(Pf, a))
        assert pred(wit), (c, P, wit)
        kw = {"suppress_warnings": True, "log_trick": c["log_trick"]}
        return "add_constraint_%s_zero" % rel, (P,), kw, pred, "%s0[%s] %r" % (rel, name, P), {l for k in P for l in k}

    # logical (PCBO only): literals chosen so that operand i has truth value want_i at x*
    is_eq = c["m"].startswith("eq_")
    fam, use_neg = _BASE[c["m"][3:] if is_eq else c["m"]]
    ops = [list(o) for o in c["ops"]]
    if fam == "BUFFER":
        ops = ops[:1]
    # eq_G(a, ops): the gate value is drawn; G(ops) alone: the (negated) gate has to be true at x*
    positive = bool(c["positive"]) if is_eq else (not use_neg)
    wants = _force_gate(fam, [bool(want) for _, want in ops], positive)
    ops = [[l, w] for (l, _), w in zip(ops, wants)]
    lits = [(l, bool(wit[l] == 1) == bool(want)) for l, want in ops]     # (label, literal positive?)
    g = _gate(fam, wants)

    def lit_val(a, l, pos):
        return bool(a[l]) if pos else not bool(a[l])
    nfam = {"AND": "NAND", "OR": "NOR", "XOR": "XNOR", "BUFFER": "NOT"}[fam]
    if is_eq:
        name = c["m"]
        want_a = (not g) if use_neg else g
        a_pos = bool(wit[c["a"]] == 1) == want_a
        a_lab = c["a"]
        args = tuple([_literal(a_lab, a_pos)] + [_literal(l, p) for l, p in lits])

        def pred(a, lits=lits, fam=fam, use_neg=use_neg, a_lab=a_lab, a_pos=a_pos):
            gg = _gate(fam, [lit_val(a, l, p) for l, p in lits])
            return lit_val(a, a_lab, a_pos) == ((not gg) if use_neg else gg)
    else:
        name = c["m"]
        assert (nfam if not g else fam) == name, (c, g)
        args = tuple(_literal(l, p) for l, p in lits)

        def pred(a, lits=lits, fam=fam, g=g):
            return _gate(fam, [lit_val(a, l, p) for l, p in lits]) == g
    clabels = {l for l, _ in lits} | ({c["a"]} if is_eq else set())
    return "add_constraint_" + name, args, {}, pred, "%s%r" % (name, args), clabels


# ---------------------------------------------------------------------------

def run_case(spec, rec):
    import qubovert as qv
    with warnings.catch_warnings():
        warnings.simplefilter("ignore")
        _run(spec, rec, qv)


def _run(spec, rec, qv):
    kind = spec["kind"]
    spin = kind == "PCSO"
    labels = list(spec["labels"])
    n = len(labels)
    wbits = list(spec["witness"])
    classes = {kind}

    # the whole problem scaled by a power of two (objective and weights alike; exact): tiny or huge overall magnitudes
    mag = spec.get("mag") or 0
    sc = 2.0 ** mag if mag else 1
    if mag:
        classes.add("magnitude=2^%d" % mag)
        spec = dict(spec, objective=[[k, v * sc] for k, v in spec["objective"]])
    # reference: objective table over the user labels (exact python arithmetic)
    f = gen.terms_dict([[tuple(k), v] for k, v in spec["objective"]])
    rows = [ref.assignment(labels, r, spin) for r in range(1 << n)]
    ftab = [ref.ref_value(f, a) for a in rows]
    frange = max(ftab) - min(ftab)
    fscale = sum(abs(v) for v in f.values()) + 1.0 * sc

    H = lib(gen.build, qv, kind, spec["objective"], what="build")
    if spec.get("remap_first") and H.num_binary_variables >= 2:
        # the user picks the enumeration (documented set_mapping) before adding the constraints: ancillas and further
        # variables that enter later must still get fresh integers
        mp0 = H.mapping
        n0 = len(mp0)
        lib(H.set_mapping, {l: n0 - 1 - i for l, i in mp0.items()}, what="set_mapping")
        classes.add("set_mapping_first")
    preds, descr, anc_flags, clabels = [], [], [], set()
    for ci, c in enumerate(spec["constraints"]):
        if ci and spec.get("early_export") and H.num_binary_variables <= 14:
            # the README workflow is often iterated: look at the forms, add another constraint, convert again -
            # what is judged below is the model as it is at the end
            for form in ("to_pubo", "to_puso", "to_qubo", "to_quso"):
                lib(getattr(H, form), what=form + "(intermediate)")
            try:
                lib(H.solve_bruteforce, what="solve_bruteforce(intermediate)", expect=(KeyError,))
            except KeyError as e:
                # admissible only for a constraint label that occurs in no term of the model (C08's own precondition)
                if all(l in ref.labels_of(dict(H)) for l in clabels):
                    raise Violation("solve_bruteforce_keyerror/intermediate",
                                    "KeyError %s although every constraint label occurs in the model %r" % (e, dict(H)))
            classes.add("intermediate_export")
        name, args, kw, pred, d, cl = _plan_constraint(c, labels, wbits, spin)
        clabels |= cl
        lam = frange + c["delta"] * sc
        before = H.num_ancillas
        lib(getattr(H, name), *args, what=name, lam=lam, **kw)
        anc_flags.append(H.num_ancillas > before)
        preds.append(pred)
        descr.append("%s lam=%r" % (d, lam))
        classes.add(name.replace("add_constraint_", "m_"))
        if c["t"] == "cmp" and c["rel"] != "eq":
            classes.add("log_trick_%s" % bool(c["log_trick"]))
        if c["t"] == "tmpl":
            classes.add("template_" + c["name"])
    record_only = False
    # (only over labels that occur in a term of the model: a record-only constraint adds no terms, and the solver
    # enumerates the model's variables)
    in_model = [l for l in labels if l in ref.labels_of(dict(H))]
    if spec.get("bigM") and len(in_model) >= 2:
        i0, i1 = spec["bigM"]
        la, lb = in_model[i0], in_model[i1]
        rest = [l for l in in_model if l not in (la, lb)]
        Pm = {(la,): 2 ** 40, (lb,): -(2 ** 40)}
        if rest:
            Pm[(rest[0],)] = 1
        Pm[()] = 1
        wit_assign = {l: ((1 - 2 * b) if spin else b) for l, b in zip(labels, wbits)}
        v0 = ref.ref_value(Pm, wit_assign)
        relm = "gt" if v0 > 0 else ("lt" if v0 < 0 else "eq")
        lib(getattr(H, "add_constraint_%s_zero" % relm), dict(Pm), what="add_constraint_%s_zero(bigM)" % relm, lam=0)
        preds.append(lambda a, Pm=Pm, relm=relm: ref.REL[relm](ref.ref_value(Pm, a)))
        descr.append("%s0[bigM, lam=0] %r" % (relm, Pm))
        anc_flags.append(False)
        record_only = True
        classes.add("bigM_record_only")
    feasible = [all(p(a) for p in preds) for a in rows]
    wrow = sum(b << i for i, b in enumerate(wbits))
    assert feasible[wrow], "harness: constraints do not hold at the witness: %r" % (descr,)
    fstar = min(ftab[r] for r in range(1 << n) if feasible[r])
    if fstar > min(ftab):
        classes.add("constraints_exclude_unconstrained_optimum")
    info = "kind=%s f=%r constraints=%r F*=%r model=%r" % (kind, f, descr, fstar, dict(H))

    pos = {l: i for i, l in enumerate(labels)}

    def judge(sol, what):
        """sol: label -> value in the model's own domain (ancillas allowed).  Feasible and optimal?"""
        nonlocal info
        user = {l: v for l, v in sol.items() if not _is_anc(l)}
        extra = [l for l in user if l not in pos]
        if extra:
            raise Violation("solution_has_unknown_label/%s" % what, "labels %r in %r; %s" % (extra, sol, info))
        good = (1, -1) if spin else (0, 1)
        if any(v not in good for v in user.values()):
            raise Violation("solution_value_domain/%s" % what, "%r; %s" % (sol, info))
        missing = [l for l in labels if l not in user]
        if missing:
            rec.add("solution_lacks_user_label")
        base = 0
        for l, v in user.items():
            bit = (1 - v) // 2 if spin else v
            base |= bit << pos[l]
        completions = [base]
        for l in missing:
            completions = completions + [r | (1 << pos[l]) for r in completions]
        for r in completions:
            if not feasible[r]:
                raise Violation("infeasible/%s" % what,
                                "solution %r (completed to %r) violates a constraint; %s" % (sol, rows[r], info))
            if abs(ftab[r] - fstar) > 1e-9 * fscale:
                raise Violation("not_optimal/%s" % what,
                                "solution %r has f=%r, constrained optimum is %r; %s" % (sol, ftab[r], fstar, info))

    def check_remove(sol, what):
        want = {k: v for k, v in sol.items() if not _is_anc(k)}
        got = lib(H.remove_ancilla_from_solution, dict(sol), what="remove_ancilla_from_solution")
        if got != want or type(got) is not dict:
            raise Violation("remove_ancilla_from_solution", "%s: solution %r -> %r, expected %r" % (what, sol, got, want))
        rec.add("remove_ancilla_checked")

    nbv = H.num_binary_variables

    # (1) the library's constrained brute force
    orphans = sorted((l for l in clabels if l not in H.variables), key=str)
    if orphans:
        classes.add("constraint_label_not_in_model")
    if nbv <= MAX_BRUTE_VARS:
        try:
            sol = lib(H.solve_bruteforce, what="solve_bruteforce", expect=(KeyError,) if orphans else ())
        except KeyError as e:
            raise Violation("solve_bruteforce_keyerror/constraint_label_not_in_model",
                            "KeyError %s: labels %r occur in a recorded constraint but in no term of the model; %s" % (e, orphans, info))
        if not isinstance(sol, dict):
            raise Violation("solve_bruteforce_type", "%r; %s" % (sol, info))
        judge(sol, "solve_bruteforce")
        check_remove(sol, "solve_bruteforce")
        sols = lib(H.solve_bruteforce, all_solutions=True, what="solve_bruteforce(all)")
        if not isinstance(sols, list) or not sols:
            raise Violation("solve_bruteforce_all_empty", "%r; %s" % (sols, info))
        for s in sols[:MAX_ARGMIN]:
            judge(s, "solve_bruteforce(all)")
        check_remove(sols[-1], "solve_bruteforce(all)")
        classes.add("bruteforce")
    else:
        rec.add("bruteforce_too_big")

    # (2) unconstrained arg-mins of the model itself and of the four target forms
    reduced_checked = False

    def table_check(terms, order, form_spin, to_solution, what):
        terms = {k: float(v) for k, v in terms.items()}
        tab = ref.table(terms, order, form_spin)
        scale = sum(abs(v) for v in terms.values()) + fscale
        tol = 1e-9 * scale
        if mag:
            # scaled pipelines: the reduction penalties (1 + |v|, not scaled) dwarf the objective, so a tolerance relative
            # to the coefficient mass would call near-optimal rows optimal; what is needed is only room for the rounding
            # of the table sums (<= a few hundred terms of size <= scale), far below the objective's granularity 2^(mag-3)
            tol = max(1e-9 * fscale, 1024 * 2.220446049250313e-16 * scale)
        mn = float(tab.min())
        if abs(mn - fstar) > tol:
            raise Violation("minimum_differs/%s" % what,
                            "unconstrained minimum %r != constrained optimum %r; form=%r; %s" % (mn, fstar, terms, info))
        idx = np.nonzero(tab <= mn + tol)[0]
        if len(idx) > MAX_ARGMIN:
            rec.add("argmin_rows_not_judged", int(len(idx) - MAX_ARGMIN))
            idx = idx[:MAX_ARGMIN]
        last = None
        for r in idx:
            s = ref.assignment(order, int(r), form_spin)
            last = to_solution(s)
            judge(last, what)
        check_remove(last, what)
        rec.add("forms_checked")

    own_order = ref.labels_of(dict(H))
    if record_only:
        rec.case(spec, False, sorted(classes))
        return
    if len(own_order) <= MAX_TABLE_VARS:
        table_check(dict(H), own_order, spin, lambda s: s, "model_itself")
    else:
        rec.add("too_big")

    for form in ("to_pubo", "to_puso", "to_qubo", "to_quso"):
        D = lib(getattr(H, form), what=form)
        form_spin = form in ("to_puso", "to_quso")
        used = {l for k in D for l in k}
        bad = [l for l in used if not isinstance(l, int) or isinstance(l, bool) or l < 0]
        if bad:
            raise Violation("form_label/%s" % form, "labels %r; %s" % (bad, info))
        order = list(range(nbv)) + sorted(l for l in used if l >= nbv)
        if len(order) > MAX_TABLE_VARS:
            rec.add("too_big")
            classes.add("too_big")
            continue

        def to_solution(s, form=form, form_spin=form_spin):
            got = lib(H.convert_solution, s, spin=form_spin, what="convert_solution(%s)" % form)
            vals = s.values() if isinstance(s, dict) else s
            if any(v == (-1 if form_spin else 0) for v in vals):
                # the flag only matters for all-ones solutions (documented); unambiguous here, so omit it
                got2 = lib(H.convert_solution, s, what="convert_solution(%s, no flag)" % form)
                if got2 != got:
                    raise Violation("convert_solution_noflag/%s" % form,
                                    "with spin=%r: %r, without the flag: %r; solution %r; %s" % (form_spin, got, got2, s, info))
            return got
        table_check(dict(D), order, form_spin, to_solution, form)
        classes.add(form)
        if form in ("to_qubo", "to_quso") and len(order) > nbv:
            reduced_checked = True
            classes.add("reduction_ancillas")

    # (1') documented for PCBO/PCSO.solve_bruteforce: correct "even if the lagrange multipliers are too
    # small", because infeasible assignments are filtered by is_solution_valid; same oracle, weak weights
    weak = spec.get("weak")
    if weak:
        H2 = lib(gen.build, qv, kind, spec["objective"], what="build")
        for c in spec["constraints"]:
            name, args, kw, _, _, _ = _plan_constraint(c, labels, wbits, spin)
            lib(getattr(H2, name), *args, what=name, lam=weak * sc, **kw)
        if not set(ref.labels_of(dict(H2))) >= set(ref.labels_of(dict(H))):
            # a weak penalty cancelled a term of the objective exactly and the weak model lost a variable
            # the constraints depend on: its solutions cannot say anything about that variable
            rec.add("weak_skipped_variable_cancelled")
        elif H2.num_binary_variables <= MAX_BRUTE_VARS:
            info2 = "WEAK weights lam=%r; %s; weak model=%r" % (weak, info, dict(H2))
            sol = lib(H2.solve_bruteforce, what="solve_bruteforce")
            sols = lib(H2.solve_bruteforce, all_solutions=True, what="solve_bruteforce(all)")
            if not isinstance(sol, dict) or not isinstance(sols, list) or not sols:
                raise Violation("solve_bruteforce_type", "%r / %r; %s" % (sol, sols, info2))
            info_saved, info = info, info2
            try:
                judge(sol, "solve_bruteforce[weak_weights]")
                for s_ in sols[:MAX_ARGMIN]:
                    judge(s_, "solve_bruteforce(all)[weak_weights]")
            finally:
                info = info_saved
            classes.add("bruteforce_weak_weights")
        else:
            rec.add("bruteforce_too_big")

    if any(anc_flags):
        classes.add("constraint_ancillas")
    classes.add("n_constraints_%d" % len(spec["constraints"]))
    nontrivial = len(spec["constraints"]) >= 2 and any(anc_flags) and reduced_checked
    rec.case(spec, nontrivial, sorted(classes))


def subchecks(tier):
    return [Sub("pipeline", pipeline_specs(), run_case, quick=2400, thorough=50000, shrink_quick=False)]
