"""Overlay builds of qubovert from the *current working tree* of $VERIF_REPO.

The in-tree ``_canneal*.so`` is prebuilt and can be stale with respect to an
edited C file, so every check copies ``qubovert/`` (without ``*.so`` and
``__pycache__``) into ``/verif/.build/<tag>/qubovert`` and compiles the five C
sources there.  Variants:

plain : gcc -O2                       (all functional checks)
asan  : clang -O1 -g ASan+UBSan       (C17 worker, needs LD_PRELOAD of the runtime)
gcov  : gcc -O0 --coverage            (C11/C17 thorough: measured C line coverage)
"""
import os
import shutil
import subprocess
import sys
import sysconfig

ROOT = os.path.dirname(os.path.dirname(os.path.abspath(__file__)))
REPO = os.environ.get("VERIF_REPO", "/repo")

C_SOURCES = [
    "qubovert/sim/_canneal.c",
    "qubovert/sim/src/pcg_basic.c",
    "qubovert/sim/src/random.c",
    "qubovert/sim/src/anneal_quso.c",
    "qubovert/sim/src/anneal_puso.c",
]


class BuildError(Exception):
    pass


def _copy_tree(src, dst):
    if os.path.isdir(dst):
        shutil.rmtree(dst)

    def ignore(d, names):
        return [n for n in names
                if n == "__pycache__" or n.endswith(".so") or n.endswith(".pyc")
                or n.endswith(".gcda") or n.endswith(".gcno")]
    shutil.copytree(src, dst, ignore=ignore)


def asan_runtime():
    out = subprocess.run(
        ["clang", "-print-file-name=libclang_rt.asan-x86_64.so"],
        capture_output=True, text=True)
    p = out.stdout.strip()
    if out.returncode != 0 or not os.path.isfile(p):
        raise BuildError("clang ASan runtime not found: %r" % p)
    return p


def build(variant="plain", tag=None, repo=None):
    """Build the overlay; return the directory to put on sys.path."""
    repo = repo or os.environ.get("VERIF_REPO", REPO)
    tag = tag or variant
    dest = os.path.join(ROOT, ".build", tag)
    os.makedirs(dest, exist_ok=True)
    src_pkg = os.path.join(repo, "qubovert")
    if not os.path.isdir(src_pkg):
        raise BuildError("no qubovert package under %s" % repo)
    _copy_tree(src_pkg, os.path.join(dest, "qubovert"))

    inc = sysconfig.get_paths()["include"]
    ext = sysconfig.get_config_var("EXT_SUFFIX")
    out = os.path.join(dest, "qubovert", "sim", "_canneal" + ext)
    srcs = [os.path.join(dest, s) for s in C_SOURCES]
    incs = ["-I" + inc, "-I" + os.path.join(dest, "qubovert", "sim", "src")]
    if variant == "plain":
        # -DNDEBUG as in CPython's own CFLAGS, which setup.py's build_ext uses (C asserts off: what users run)
        cmd = ["gcc", "-O2", "-DNDEBUG", "-fPIC", "-shared", "-fwrapv"] + incs + srcs + \
            ["-o", out, "-lm"]
    elif variant == "asan":
        cmd = ["clang", "-O1", "-g", "-fno-omit-frame-pointer",
               "-fsanitize=address,undefined",
               "-fno-sanitize-recover=undefined", "-shared-libasan",
               "-fPIC", "-shared"] + incs + srcs + ["-o", out, "-lm"]
    elif variant == "gcov":
        # compile each source on its own so the .gcno/.gcda files get plain names
        objs = []
        for sfile in srcs:
            o = os.path.join(dest, "qubovert", "sim", os.path.basename(sfile)[:-2] + ".o")
            r = subprocess.run(["gcc", "-O0", "-g", "--coverage", "-fPIC", "-c", sfile, "-o", o] + incs,
                               capture_output=True, text=True, cwd=os.path.join(dest, "qubovert", "sim"))
            if r.returncode != 0:
                raise BuildError("compile failed (gcov): %s" % r.stderr[-2000:])
            objs.append(o)
        cmd = ["gcc", "--coverage", "-shared"] + objs + ["-o", out, "-lm"]
    else:
        raise BuildError("unknown variant %r" % variant)
    cwd = os.path.join(dest, "qubovert", "sim")
    r = subprocess.run(cmd, capture_output=True, text=True, cwd=cwd)
    if r.returncode != 0:
        raise BuildError("compile failed (%s):\n%s\n%s" %
                         (variant, " ".join(cmd), r.stderr[-4000:]))
    return dest


def activate(path):
    """Put the overlay first on sys.path and make sure it is what gets imported."""
    for m in [m for m in sys.modules if m == "qubovert" or m.startswith("qubovert.")]:
        del sys.modules[m]
    sys.path.insert(0, path)
    import qubovert  # noqa
    got = os.path.realpath(qubovert.__file__)
    if not got.startswith(os.path.realpath(path) + os.sep):
        raise BuildError("qubovert imported from %s, expected overlay %s" % (got, path))
    return qubovert


def hooks_env():
    os.environ["JTIOSUE_QUBOVERT_VERIF"] = "1"


if __name__ == "__main__":
    v = sys.argv[1] if len(sys.argv) > 1 else "plain"
    print(build(v))
