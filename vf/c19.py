"""C19 — models survive copy and info round trips and never alias their inputs.

Three generated sub-checks:

info   create_from_info(get_info(M)) reproduces type, terms, name, mapping,
       num_ancillas and the recorded constraints; get_info of the result equals
       get_info(M); neither call changes its argument and the three objects
       (M, info, result) stay independent under later mutation.
alias  a view of M (copy(), type(M)(M), mapping, reverse_mapping, variables,
       constraints, a PUBO/PUSO inside constraints, get_info) is obtained, one
       side is mutated by a generated mutation, the other side is compared
       with its deep snapshot.
args   a catalogue of library entry points (one sub-check ``args.<entry>``
       each, so that every entry point gets its share of cases) is called with
       generated arguments; every model / dict / list / set argument is
       deep-snapshotted before and after the call and compared with ``==``.
"""
import itertools
import warnings

from hypothesis import strategies as st

from . import gen, ref
from .common import Sub, Violation, lib

ID = "C19"
RULE = ("info: generated model of each of the ten types (labels/terms as in gen.py, optional name, set_mapping to a generated "
        "bijection onto 0..n-1, optional stale label, 0-3 generated constraints of mixed relations with lam in {0,1,2} on PCBO/PCSO); "
        "non-trivial = has recorded constraints, ancillas, or a non-default mapping. "
        "alias: same models, view in {copy, ctor, mapping, reverse_mapping, variables, constraints, nested constraint polynomial, "
        "get_info}, side in {view, model}, generated mutation (item assignment, removal, clear, += const, *= 2, update, name, "
        "set_mapping, add constraint; dict/set/list mutations for plain containers); non-trivial = the mutation really changed the "
        "mutated side. args.<entry>: one sub-check per catalogue entry point (126 entries, evidence classes 'entry=...'), arguments "
        "generated in the documented domain of that entry; non-trivial = at least one mutable model/dict/list/set argument is "
        "watched and the callee is not a pure getter (get_info, approximate extrema). Distinct = distinct spec hash.")
ASSUMPTIONS = [
    "snapshots compare type, items, name, mapping, reverse mapping, variables, degree, num_binary_variables, next label, ancilla "
    "count and recorded constraints with == (dict insertion order is not part of equality)",
    "copy() and the copy constructors are only required to be independent and to carry the same terms and type (they do not keep "
    "name or a custom mapping; the statement does not ask for it)",
    "qubovert.utils.sum(iterable, start=<model>) adds into `start` in place; sum is not a constraint method, conversion, solver or "
    "annealer, so only its iterable elements are watched (reported as an observation)",
    "sat gates / logical constraint methods get boolean-valued operand expressions (variable, product, negation, OR, XOR) given as "
    "label, dict or non-quadratic boolean model; quadratic operand types only for single-operand gates (term-wise degree > 2 on "
    "QUBO types is an unspecified zone)",
    "results of sat gates, conversion functions, to_* methods and subgraph/subvalue/normalize functions are additionally mutated "
    "(+= 1) and the arguments compared again: a returned object that is the argument itself would alias its input",
    "annealers: num_anneals <= 2, anneal_duration <= 5, models with at least one variable-carrying term, refreshed state",
    "brute-force entries are skipped (counted) above 9 variables and when a recorded constraint mentions a label that is not a "
    "variable of the model; the normalize function is skipped (counted) on an empty model (documented to need a non-empty one)",
    "arithmetic entries (op.*, utils.sum) are an extension of the catalogue; a KeyError from a term-wise degree > 2 on a degree-2 "
    "type is counted as documented_exception and the operands are still compared with their snapshots",
]

RELS = ["eq", "ne", "lt", "le", "gt", "ge"]
BOOL_FORMS = ["dict"] + gen.BOOL_KINDS
SPIN_FORMS = ["dict"] + gen.SPIN_KINDS
BOOL_NQ = ["dict", "PUBO", "PCBO", "PUBOMatrix"]
BOOL_Q = ["dict", "QUBO", "QUBOMatrix"]
SPIN_Q = ["dict", "QUSO", "QUSOMatrix"]
PC = ("PCBO", "PCSO")


def _okey(l):
    return (str(type(l)), l)


def _is_model(o):
    return isinstance(o, dict) and type(o) is not dict


# ---------------------------------------------------------------------------
# deep snapshots

def _snap_model(m):
    """gen.snapshot, but total: a model whose private state was corrupted through an alias still yields a comparable value."""
    try:
        return gen.snapshot(m)
    except Exception:  # noqa
        s = {"type": type(m).__name__, "items": dict(dict.items(m)), "corrupt": True}
        for attr in ("_name", "_mapping", "_reverse_mapping", "_variables", "_degree", "_num_binary_variables",
                     "_next_label", "_ancilla", "_constraints"):
            if hasattr(m, attr):
                s[attr] = repr(getattr(m, attr))
        return s


def deep(o):
    if _is_model(o):
        return _snap_model(o)
    if isinstance(o, dict):
        return {"type": "dict", "items": {k: deep(v) for k, v in o.items()}}
    if isinstance(o, list):
        return ["list"] + [deep(v) for v in o]
    if isinstance(o, tuple):
        return ("tuple",) + tuple(deep(v) for v in o)
    if isinstance(o, (set, frozenset)):
        return ("set", frozenset(o))
    return o


# ---------------------------------------------------------------------------
# strategies

def _perm():
    return st.one_of(st.none(), st.permutations(list(range(16))))


def _con(labels, lams=(0, 0, 1, 2)):
    cpoly = gen.poly_strategy(labels, 3, 2, gen.SMALL_INT_COEFS, repeats=False, min_terms=1)
    return st.tuples(st.sampled_from(RELS), cpoly, st.sampled_from(list(lams)), st.booleans()).map(list)


def _boolexpr(labels):
    lab = st.sampled_from(labels)
    two = st.lists(lab, min_size=2, max_size=2, unique_by=_okey)
    return st.one_of(
        lab.map(lambda a: [[(a,), 1]]),
        two.map(lambda p: [[(p[0], p[1]), 1]]),
        lab.map(lambda a: [[(), 1], [(a,), -1]]),
        two.map(lambda p: [[(p[0],), 1], [(p[1],), 1], [(p[0], p[1]), -1]]),
        two.map(lambda p: [[(p[0],), 1], [(p[1],), 1], [(p[1], p[0]), -2]]),
    )


def poly_spec(labels, form, spin, quad=False, tiny=False, boolexpr=False, min_terms=0, max_cons=1,
              stale=False, plain=False, varterm=False):
    """{'form','terms','name','cons','perm','stale'}: one model / dict argument."""
    q = quad or gen.is_quad(form)
    if boolexpr:
        terms = _boolexpr(labels)
    elif tiny:
        terms = gen.poly_strategy(labels, 3, 2, gen.SMALL_INT_COEFS, min_terms=max(1, min_terms), quad=q, spin=spin)
    elif varterm:
        # every generated term carries a variable; an offset is appended separately
        terms = st.tuples(
            gen.poly_strategy(labels, 5, 2 if q else 3, gen.MIXED_COEFS, offset=False, min_terms=max(1, min_terms), quad=q, spin=spin),
            st.one_of(st.just([]), gen.MIXED_COEFS.map(lambda c: [[(), c]]))).map(lambda t: t[0] + t[1])
    else:
        terms = gen.poly_strategy(labels, 5, 2 if q else 3, gen.MIXED_COEFS, min_terms=min_terms, quad=q, spin=spin)
    return st.fixed_dictionaries({
        "form": st.just(form),
        "terms": terms,
        "name": st.just(None) if plain else st.sampled_from([None, None, "nm", 3, ("t", 1), 0, "", 0.0, ()]),
        "cons": st.lists(_con(labels), min_size=0, max_size=max_cons) if form in PC and not plain else st.just([]),
        "perm": st.just(None) if (plain or form == "dict" or gen.is_matrix(form)) else _perm(),
        # after the constraints every term that carries an ancilla is removed again: the ancilla counter then exceeds
        # what the remaining terms show
        "strip": gen.pick((False, 3), (True, 1)) if form in PC and not plain else st.just(False),
        "symcon": gen.pick((False, 4), (True, 1)) if form in PC and not plain and max_cons >= 3 else st.just(False),
        # a term that is added and cancelled again: a single label (a stale variable if it is new) or, for the
        # non-quadratic types, a key over the first labels of higher degree than anything else in the model (a stale
        # *degree*: the recorded degree then exceeds the true one)
        "stale": (st.one_of(st.none(), st.none(), st.sampled_from(labels).map(lambda l: (l,)),
                            st.just(tuple(labels[:4])) if (not q and len(labels) >= 4) else st.sampled_from(labels).map(lambda l: (l,)))
                  if stale and form != "dict" else st.none()),
    })


def _mutation(labels):
    key = gen.key_strategy(labels, 2, False, min_deg=0)
    return st.fixed_dictionaries({
        "op": st.sampled_from(["setitem", "iadd_item", "remove", "clear", "iadd_const", "imul", "update", "set_name",
                               "set_mapping", "constraint", "constraint", "isub_dict"]),
        "dop": st.sampled_from(["d_set", "d_clear", "d_pop", "d_overwrite"]),
        "sop": st.sampled_from(["s_add", "s_clear", "s_discard"]),
        "cop": st.sampled_from(["c_append", "c_list_clear", "c_list_pop", "c_nested", "c_nested", "c_nested", "d_set",
                                "d_clear", "d_pop"]),
        "iop": st.sampled_from(["terms", "mapping", "constraints", "name", "type", "top"]),
        "key": key,
        "coef": gen.INT_COEFS,
        "rel": st.sampled_from(RELS),
        "cterms": gen.poly_strategy(labels, 2, 2, gen.SMALL_INT_COEFS, min_terms=1),
        "lam": st.sampled_from([0, 1, 2]),
        "idx": st.integers(0, 30),
    })


def info_cases():
    def for_kind(kind):
        return gen.label_pool(gen.is_matrix(kind), 1, 6).flatmap(
            lambda labels: st.fixed_dictionaries({
                "labels": st.just(labels),
                "p": poly_spec(labels, kind, gen.is_spin(kind), max_cons=3, stale=True),
                "mut": _mutation(labels),
            }))
    return st.sampled_from(gen.ALL_KINDS + ["PCBO", "PCSO"] * 3).flatmap(for_kind)


def _views(kind):
    v = []
    if kind in PC:
        v += ["nested", "constraints", "ctor", "nested", "copy", "nested"]
    if not gen.is_matrix(kind):
        v += ["mapping", "reverse_mapping"]
    v += ["ctor", "copy", "info", "variables"]
    return v


def alias_cases():
    def for_kind(kind):
        return gen.label_pool(gen.is_matrix(kind), 1, 6).flatmap(
            lambda labels: st.fixed_dictionaries({
                "labels": st.just(labels),
                "p": poly_spec(labels, kind, gen.is_spin(kind), max_cons=3, stale=True, min_terms=1),
                "view": st.sampled_from(_views(kind)),
                "side": st.sampled_from(["view", "model"]),
                "mut": _mutation(labels),
            }))
    return st.sampled_from(gen.ALL_KINDS + ["PCBO", "PCSO"] * 4).flatmap(for_kind)


# ---------------------------------------------------------------------------
# building

def mk(qv, p):
    form = p["form"]
    if form == "dict":
        return {k: v for k, v in gen.terms_dict(p["terms"]).items() if v != 0}
    M = lib(gen.build, qv, form, p["terms"], what="build")
    for (rel, cterms, lam, log_trick), P in zip(p["cons"], con_polys(p)):
        kw = {"lam": lam}
        if rel != "eq":
            kw["log_trick"] = bool(log_trick)
        lib(getattr(M, "add_constraint_%s_zero" % rel), P, what="build_constraint_" + rel, **kw)
    if p.get("strip"):
        def strip():
            for k in [k for k in dict.keys(M) if any(isinstance(l, str) and l.startswith("__a") for l in k)]:
                M[k] -= M[k]
        lib(strip, what="build_strip")
    if p.get("stale"):
        k = tuple(p["stale"])

        def f():
            M[k] += 1
            M[k] -= 1
        lib(f, what="build_stale")
    if p["name"] is not None:
        M.name = p["name"]
    if p.get("perm") is not None and hasattr(M, "set_mapping"):
        labels = sorted(M.mapping.keys(), key=_okey)
        n = len(labels)
        if 0 < n <= 16:
            pr = [x for x in p["perm"] if x < n]
            lib(M.set_mapping, {l: pr[i] for i, l in enumerate(labels)}, what="set_mapping")
    return M


def con_polys(p):
    """The constraint polynomials of a model spec as they are handed to the library.  With ``symcon`` the first
    recorded-only constraint (lam = 0: remembered for is_solution_valid, no penalty) carries a sympy symbol in one
    coefficient - it has to survive copies and the info round trip like any other."""
    out, done = [], False
    for rel, cterms, lam, log_trick in p["cons"]:
        P = gen.terms_dict(cterms)
        if p.get("symcon") and lam == 0 and not done:
            k0 = next((k for k in P if k), None)
            if k0 is not None:
                import sympy
                P[k0] = P[k0] * sympy.Symbol("s_c19")
                done = True
        out.append(P)
    return out


def expected_constraints(p, spin):
    out = {}
    for (rel, cterms, lam, log_trick), P in zip(p["cons"], con_polys(p)):
        out.setdefault(rel, []).append(ref.canon(P, spin))
    return out


def canon_constraints(cs, spin):
    return {k: [ref.canon(dict(x), spin) for x in v] for k, v in cs.items()}


# ---------------------------------------------------------------------------
# mutations

def mutate_model(qv, X, mut):
    """Apply a generated in-place mutation to a model object; returns its name."""
    op = mut["op"]
    key, coef = tuple(mut["key"]), mut["coef"]
    if op == "remove":
        keys = sorted(dict.keys(X), key=repr)
        if not keys:
            op = "iadd_const"
        else:
            k = keys[mut["idx"] % len(keys)]

            def f():
                X[k] = 0
    if op == "set_mapping":
        if not hasattr(X, "set_mapping"):
            op = "iadd_const"
        else:
            mp = X.mapping
            new = {l: i + 1 for l, i in mp.items()} if mp else {"zz": 0}

            def f():
                X.set_mapping(new)
    if op == "constraint":
        if not hasattr(X, "add_constraint_eq_zero"):
            op = "iadd_item"
        else:
            def f():
                getattr(X, "add_constraint_%s_zero" % mut["rel"])(gen.terms_dict(mut["cterms"]), lam=mut["lam"])
    if op == "setitem":
        def f():
            X[key] = coef
    elif op == "iadd_item":
        def f():
            X[key] += coef
    elif op == "clear":
        def f():
            X.clear()
    elif op == "iadd_const":
        def f(X=X):
            X += coef
    elif op == "imul":
        def f(X=X):
            X *= 2
    elif op == "update":
        def f():
            X.update({key: coef})
    elif op == "isub_dict":
        def f(X=X):
            X -= {key: coef, (): 1}
    elif op == "set_name":
        def f():
            X.name = "renamed"
    lib(f, what="mutate/" + op)
    return op


def mutate_dict(d, mut):
    op = mut["dop"]
    keys = sorted(d.keys(), key=repr)
    if op in ("d_pop", "d_overwrite") and not keys:
        op = "d_set"
    if op == "d_set":
        d[("zz", mut["idx"])] = 99
    elif op == "d_clear":
        d.clear()
    elif op == "d_pop":
        d.pop(keys[mut["idx"] % len(keys)])
    elif op == "d_overwrite":
        d[keys[mut["idx"] % len(keys)]] = 98
    return op


def mutate_set(s, mut):
    op = mut["sop"]
    if op == "s_discard" and not s:
        op = "s_add"
    if op == "s_add":
        s.add(("zz", mut["idx"]))
    elif op == "s_clear":
        s.clear()
    else:
        s.discard(sorted(s, key=_okey)[mut["idx"] % len(s)])
    return op


def mutate_constraints(qv, cs, mut, spin, force_nested=False):
    """cs: dict rel -> list of polynomial objects (a returned view)."""
    op = "c_nested" if force_nested else mut["cop"]
    rels = sorted(cs.keys())
    if op in ("c_list_clear", "c_list_pop", "c_nested") and not rels:
        op = "c_append"
    if op == "c_append":
        rel = rels[mut["idx"] % len(rels)] if rels and mut["idx"] % 2 else mut["rel"]
        cls = qv.PUSO if spin else qv.PUBO
        cs.setdefault(rel, []).append(cls(gen.terms_dict(mut["cterms"])))
    elif op == "c_list_clear":
        cs[rels[mut["idx"] % len(rels)]].clear()
    elif op == "c_list_pop":
        cs[rels[mut["idx"] % len(rels)]].pop()
    elif op == "c_nested":
        lst = cs[rels[mut["idx"] % len(rels)]]
        target = lst[(mut["idx"] // 3) % len(lst)]
        m2 = dict(mut)
        if m2["op"] == "constraint":
            m2["op"] = "setitem"
        return "c_nested/" + mutate_model(qv, target, m2)
    else:
        return mutate_dict(cs, dict(mut, dop=op))
    return op


def mutate_info(qv, info, mut, spin):
    op = mut["iop"]
    if op == "mapping" and not isinstance(info.get("mapping"), dict):
        op = "terms"
    if op == "constraints" and not isinstance(info.get("constraints"), dict):
        op = "terms"
    if op == "terms":
        return "info.terms/" + mutate_any(qv, info["terms"], mut, spin)
    if op == "mapping":
        return "info.mapping/" + mutate_dict(info["mapping"], mut)
    if op == "constraints":
        return "info.constraints/" + mutate_constraints(qv, info["constraints"], mut, spin)
    if op == "name":
        info["name"] = "other"
    elif op == "type":
        info["type"] = "PUBO"
    else:
        info.clear()
    return "info." + op


def mutate_any(qv, o, mut, spin):
    if _is_model(o):
        return mutate_model(qv, o, mut)
    if isinstance(o, dict):
        return mutate_dict(o, mut)
    if isinstance(o, set):
        return mutate_set(o, mut)
    raise AssertionError(type(o))


# ---------------------------------------------------------------------------
# (a) info round trip

def run_info(spec, rec):
    import qubovert as qv
    with warnings.catch_warnings():
        warnings.simplefilter("ignore")
        _run_info(spec, rec, qv)


def _run_info(spec, rec, qv):
    p = spec["p"]
    kind = p["form"]
    spin = gen.is_spin(kind)
    M = mk(qv, p)
    classes = {kind}
    snapM = deep(M)
    ctx = "model spec=%r" % (p,)

    info = lib(qv.utils.get_info, M, what="get_info")
    if deep(M) != snapM:
        raise Violation("arg_mutated/get_info", "before=%r after=%r; %s" % (snapM, deep(M), ctx))
    if not isinstance(info, dict):
        raise Violation("info/not_dict", repr(info))
    if info.get("type") != kind or info.get("terms") != dict(M) or "name" not in info or info["name"] != M.name:
        raise Violation("info/content", "info=%r model=%r name=%r; %s" % (info, dict(M), M.name, ctx))
    snapI = deep(info)

    R = lib(qv.utils.create_from_info, info, what="create_from_info")
    if deep(info) != snapI:
        raise Violation("arg_mutated/create_from_info", "before=%r after=%r; %s" % (snapI, deep(info), ctx))
    if deep(M) != snapM:
        raise Violation("arg_mutated/create_from_info(model)", "before=%r after=%r; %s" % (snapM, deep(M), ctx))

    if type(R) is not type(M):
        raise Violation("roundtrip/type", "%s -> %s; %s" % (type(M).__name__, type(R).__name__, ctx))
    if dict(R) != dict(M):
        raise Violation("roundtrip/terms", "%r -> %r; %s" % (dict(M), dict(R), ctx))
    if R.name != M.name or type(R.name) is not type(M.name):
        raise Violation("roundtrip/name", "%r -> %r; %s" % (M.name, R.name, ctx))
    nontrivial = False
    if not gen.is_matrix(kind):
        if R.mapping != M.mapping:
            raise Violation("roundtrip/mapping", "%r -> %r; %s" % (M.mapping, R.mapping, ctx))
        if R.reverse_mapping != M.reverse_mapping:
            raise Violation("roundtrip/reverse_mapping", "%r -> %r; %s" % (M.reverse_mapping, R.reverse_mapping, ctx))
        default = lib(type(M), dict(M), what="ctor").mapping
        if M.mapping != default:
            classes.add("non_default_mapping")
            nontrivial = True
        if p.get("stale") and set(M.mapping) != {l for k in dict(M) for l in k}:
            classes.add("stale_mapping")
    if kind in PC:
        if R.num_ancillas != M.num_ancillas:
            raise Violation("roundtrip/num_ancillas", "%r -> %r; %s" % (M.num_ancillas, R.num_ancillas, ctx))
        cm, cr = M.constraints, R.constraints
        want = expected_constraints(p, spin)
        if canon_constraints(cm, spin) != want:
            raise Violation("constraints/recorded_ne_given", "recorded %r, given %r; %s" % (cm, want, ctx))
        if cr != cm or canon_constraints(cr, spin) != want:
            raise Violation("roundtrip/constraints", "%r -> %r; %s" % (cm, cr, ctx))
        pt = qv.PUSO if spin else qv.PUBO
        for lst in list(cm.values()) + list(cr.values()):
            for x in lst:
                if type(x) is not pt:
                    raise Violation("constraints/element_type", "%s; %s" % (type(x).__name__, ctx))
        if cm:
            classes.add("constraints=%d" % sum(len(v) for v in cm.values()))
            classes.update("rel=" + k for k in cm)
            nontrivial = True
        if M.num_ancillas:
            classes.add("ancillas>0")
            nontrivial = True
    info2 = lib(qv.utils.get_info, R, what="get_info(copy)")
    if info2 != info:
        raise Violation("roundtrip/info_differs", "get_info(M)=%r get_info(copy)=%r; %s" % (info, info2, ctx))
    if M.name is not None:
        classes.add("named")

    # independence of M, info, R under mutation
    snapR = deep(R)
    op = mutate_model(qv, R, spec["mut"])
    if deep(M) != snapM:
        raise Violation("alias/info_copy->model/" + op, "mutating the reconstructed copy changed M: %r -> %r; %s" % (snapM, deep(M), ctx))
    if deep(info) != snapI:
        raise Violation("alias/info_copy->info/" + op, "mutating the reconstructed copy changed info: %r -> %r; %s" % (snapI, deep(info), ctx))
    snapR = deep(R)
    op = mutate_info(qv, info, spec["mut"], spin)
    if deep(M) != snapM:
        raise Violation("alias/info->model/" + op, "mutating info changed M: %r -> %r; %s" % (snapM, deep(M), ctx))
    if deep(R) != snapR:
        raise Violation("alias/info->info_copy/" + op, "mutating info changed the copy: %r -> %r; %s" % (snapR, deep(R), ctx))
    rec.case(spec, nontrivial, sorted(classes))


# ---------------------------------------------------------------------------
# (b) aliasing of views

def run_alias(spec, rec):
    import qubovert as qv
    with warnings.catch_warnings():
        warnings.simplefilter("ignore")
        _run_alias(spec, rec, qv)


def _run_alias(spec, rec, qv):
    p = spec["p"]
    kind = p["form"]
    spin = gen.is_spin(kind)
    view, side, mut = spec["view"], spec["side"], spec["mut"]
    M = mk(qv, p)
    ctx = "view=%s side=%s mut=%r model spec=%r" % (view, side, mut, p)
    if view == "nested" and not M.constraints:
        view = "constraints"
    classes = {kind, "view=" + view, "side=" + side}

    if view == "copy":
        V = lib(M.copy, what="copy")
    elif view == "ctor":
        V = lib(type(M), M, what="ctor")
    elif view == "mapping":
        V = lib(lambda: M.mapping, what="mapping")
    elif view == "reverse_mapping":
        V = lib(lambda: M.reverse_mapping, what="reverse_mapping")
    elif view == "variables":
        V = lib(lambda: M.variables, what="variables")
    elif view in ("constraints", "nested"):
        V = lib(lambda: M.constraints, what="constraints")
    elif view == "info":
        V = lib(qv.utils.get_info, M, what="get_info")
    else:
        raise AssertionError(view)

    if view in ("copy", "ctor"):
        if type(V) is not type(M) or dict(V) != dict(M):
            raise Violation("copy/content/" + view, "%s %r -> %s %r; %s" % (type(M).__name__, dict(M), type(V).__name__, dict(V), ctx))
        if V is M:
            raise Violation("copy/same_object/" + view, ctx)
    elif view in ("mapping", "reverse_mapping"):
        if V != getattr(M, "_" + view) or type(V) is not dict:
            raise Violation("view/content/" + view, "%r vs %r; %s" % (V, getattr(M, "_" + view), ctx))
    elif view == "variables":
        if V != M._variables or type(V) is not set:
            raise Violation("view/content/variables", "%r vs %r; %s" % (V, M._variables, ctx))
    elif view in ("constraints", "nested"):
        if canon_constraints(V, spin) != expected_constraints(p, spin):
            raise Violation("view/content/constraints", "%r vs given %r; %s" % (V, expected_constraints(p, spin), ctx))

    snapM, snapV = deep(M), deep(V)
    if side == "view":
        if view == "nested":
            op = mutate_constraints(qv, V, mut, spin, force_nested=True)
        elif view == "constraints":
            op = mutate_constraints(qv, V, mut, spin)
        elif view == "info":
            op = mutate_info(qv, V, mut, spin)
        else:
            op = mutate_any(qv, V, mut, spin)
        changed = deep(V) != snapV
        if deep(M) != snapM:
            raise Violation("alias/%s->model/%s" % (view, op.split("/")[0]),
                            "mutating the %s (%s) changed the model: %r -> %r; %s" % (view, op, snapM, deep(M), ctx))
        # a fresh view must still be what it was
        if view in ("constraints", "nested") and canon_constraints(M.constraints, spin) != expected_constraints(p, spin):
            raise Violation("alias/%s->model.constraints/%s" % (view, op.split("/")[0]), ctx)
    else:
        op = mutate_model(qv, M, mut)
        changed = deep(M) != snapM
        if deep(V) != snapV:
            raise Violation("alias/model->%s/%s" % (view, op),
                            "mutating the model (%s) changed the earlier %s: %r -> %r; %s" % (op, view, snapV, deep(V), ctx))
    classes.add("op=" + op)
    if p["cons"]:
        classes.add("has_constraints")
    rec.case(spec, bool(changed), sorted(classes))


# ---------------------------------------------------------------------------
# (c) argument immutability: the catalogue

class Slot:
    def __init__(self, forms, spin, quad=False, tiny=False, boolexpr=False, min_terms=0, plain=False, max_cons=1,
                 varterm=False):
        self.forms, self.spin, self.quad, self.tiny = list(forms), spin, quad, tiny
        self.boolexpr, self.min_terms, self.plain, self.max_cons = boolexpr, min_terms, plain, max_cons
        self.varterm = varterm


class Skip(Exception):
    pass


CATALOGUE = {}      # name -> (slots, runner, flags)
PURE_GETTERS = set()


def entry(name, slots, fresh=False, pure=False, n_min=1):
    def deco(f):
        CATALOGUE[name] = {"slots": slots, "run": f, "fresh": fresh, "n_min": n_min}
        if pure:
            PURE_GETTERS.add(name)
        return f
    return deco


def _labels_of(o):
    out = set()
    for k in dict.keys(o):
        out.update(k)
    if hasattr(o, "_variables"):
        out.update(o._variables)
    if hasattr(o, "_constraints"):
        for v in o._constraints.values():
            for x in v:
                for k in x:
                    out.update(k)
    return out


def _assignment(o, labels, bits, spin, as_list=False):
    ls = sorted(set(labels) | _labels_of(o), key=_okey)
    vals = [(1 - 2 * b if spin else b) for _, b in zip(ls, itertools.cycle(bits))]
    if as_list and all(isinstance(l, int) and not isinstance(l, bool) and l >= 0 for l in ls):
        n = (max(ls) + 1) if ls else 0
        out = [(1 if spin else 0)] * n
        for l, v in zip(ls, vals):
            out[l] = v
        return out
    return dict(zip(ls, vals))


def _constraint_entries():
    for fam, host, forms, spin in (("PCBO", "PCBO", BOOL_FORMS, False), ("PCSO", "PCSO", SPIN_FORMS, True)):
        for rel in RELS:
            def make(rel=rel, spin=spin):
                def run(qv, objs, x, labels):
                    H, P = objs
                    kw = {"lam": x["lam"]}
                    if rel != "eq":
                        kw["log_trick"] = x["log_trick"]
                    # cost guard: the penalty of an inequality squares P plus a slack of the size of P's range (unary
                    # without the log trick); a constraint polynomial that already carries another constraint's penalty
                    # terms makes a single call run for minutes (valid, but not what this entry is about)
                    if len(P) > 7 or sum(abs(float(v)) for v in dict.values(P)) > 24 or \
                            any(isinstance(l, str) and l.startswith("__a") for k in dict.keys(P) for l in k):
                        raise Skip("constraint_argument_too_costly")
                    want = ref.canon(dict(P), spin)
                    n_before = len(H._constraints.get(rel, []))

                    def post(res):
                        if res is not H:
                            raise Violation("constraint_method/returns_self/" + rel, repr(res))
                        lst = H.constraints.get(rel, [])
                        if len(lst) != n_before + 1 or ref.canon(dict(lst[-1]), spin) != want:
                            raise Violation("constraint_method/recorded_ne_argument/" + rel,
                                            "argument %r, recorded %r" % (dict(P), lst[-1:] and dict(lst[-1])))
                        # the recorded polynomial must not be the argument object
                        snapH = deep(H)
                        if _is_model(P) or isinstance(P, dict):
                            P[()] = P.get((), 0) + 5
                            if deep(H) != snapH:
                                raise Violation("alias/argument->recorded_constraint/" + rel,
                                                "mutating the argument afterwards changed the model's recorded constraint")
                            P[()] = P.get((), 0) - 5
                            if P.get(()) == 0:
                                dict.pop(P, ())
                    return {"watch": [("P", P)], "call": lambda: getattr(H, "add_constraint_%s_zero" % rel)(P, **kw),
                            "post": post}
                return run
            entry("%s.add_constraint_%s_zero" % (fam, rel),
                  [Slot([host], spin, max_cons=1), Slot(forms, spin, tiny=True)])(make())


_constraint_entries()

LOGICAL_EQ = {"eq_AND": 2, "eq_OR": 2, "eq_XOR": 2, "eq_NAND": 2, "eq_NOR": 2, "eq_XNOR": 2}
LOGICAL_PLAIN = ["AND", "OR", "XOR", "NAND", "NOR", "XNOR"]


def _operands(objs, x, labels, count, first=0):
    """count operands: objs[first + i] if bit i of opmask else a label."""
    ops, watch = [], []
    for i in range(count):
        if (x["opmask"] >> i) & 1 and first + i < len(objs):
            ops.append(objs[first + i])
            watch.append(("operand%d" % i, objs[first + i]))
        else:
            ops.append(labels[(x["idx"] + i) % len(labels)])
    return ops, watch


def _logical_entries():
    opslots = [Slot(BOOL_NQ, False, boolexpr=True, plain=True) for _ in range(4)]
    host = Slot(["PCBO"], False, tiny=True)
    for name, least in LOGICAL_EQ.items():
        def make(name=name, least=least):
            def run(qv, objs, x, labels):
                H = objs[0]
                cnt = 1 + max(least, min(3, x["n_ops"] + 1))
                ops, watch = _operands(objs, x, labels, cnt, first=1)
                return {"watch": watch,
                        "call": lambda: getattr(H, "add_constraint_" + name)(*ops, lam=x["lam"])}
            return run
        entry("PCBO.add_constraint_" + name, [host] + opslots, n_min=2)(make())
    for name in LOGICAL_PLAIN:
        def make(name=name):
            def run(qv, objs, x, labels):
                H = objs[0]
                ops, watch = _operands(objs, x, labels, x["n_ops"], first=1)
                return {"watch": watch,
                        "call": lambda: getattr(H, "add_constraint_" + name)(*ops, lam=x["lam"])}
            return run
        entry("PCBO.add_constraint_" + name, [host] + opslots[:3], n_min=2)(make())
    anyop = [Slot(BOOL_FORMS, False, boolexpr=True, plain=True) for _ in range(2)]
    for name, cnt in (("eq_BUFFER", 2), ("eq_NOT", 2), ("BUFFER", 1), ("NOT", 1)):
        def make(name=name, cnt=cnt):
            def run(qv, objs, x, labels):
                H = objs[0]
                ops, watch = _operands(objs, x, labels, cnt, first=1)
                return {"watch": watch,
                        "call": lambda: getattr(H, "add_constraint_" + name)(*ops, lam=x["lam"])}
            return run
        entry("PCBO.add_constraint_" + name, [host] + anyop[:cnt], n_min=2)(make())


_logical_entries()


def _sat_entries():
    opslots = [Slot(BOOL_NQ, False, boolexpr=True, plain=True) for _ in range(3)]
    for name in ("AND", "NAND", "OR", "NOR", "XOR", "XNOR"):
        def make(name=name):
            def run(qv, objs, x, labels):
                ops, watch = _operands(objs, x, labels, x["n_ops"], first=0)
                return {"watch": watch, "call": lambda: getattr(qv.sat, name)(*ops)}
            return run
        entry("sat." + name, opslots, fresh=True, n_min=2)(make())
    for name in ("BUFFER", "NOT"):
        def make(name=name):
            def run(qv, objs, x, labels):
                ops, watch = _operands(objs, x, labels, 1, first=0)
                return {"watch": watch, "call": lambda: getattr(qv.sat, name)(*ops)}
            return run
        entry("sat." + name, [Slot(BOOL_FORMS, False, boolexpr=True, plain=True)], fresh=True, n_min=2)(make())


_sat_entries()


def _simple(name, forms, spin, quad, fn, fresh=False, pure=False, min_terms=0, nonempty=False):
    def run(qv, objs, x, labels):
        M = objs[0]
        if nonempty and not len(M):
            raise Skip("empty_model")       # the normalize function is documented for non-empty input only
        return {"watch": [("model", M)], "call": lambda: fn(qv, M, x, labels)}
    entry(name, [Slot(forms, spin, quad=quad, min_terms=min_terms)], fresh=fresh, pure=pure)(run)


_simple("utils.qubo_to_quso", BOOL_Q, False, True, lambda qv, M, x, l: qv.utils.qubo_to_quso(M), fresh=True)
_simple("utils.quso_to_qubo", SPIN_Q, True, True, lambda qv, M, x, l: qv.utils.quso_to_qubo(M), fresh=True)
_simple("utils.pubo_to_puso", BOOL_FORMS, False, False, lambda qv, M, x, l: qv.utils.pubo_to_puso(M), fresh=True)
_simple("utils.puso_to_pubo", SPIN_FORMS, True, False, lambda qv, M, x, l: qv.utils.puso_to_pubo(M), fresh=True)
_simple("utils.approximate_pubo_extrema", BOOL_FORMS, False, False,
        lambda qv, M, x, l: qv.utils.approximate_pubo_extrema(M), pure=True)
_simple("utils.approximate_qubo_extrema", BOOL_Q, False, True,
        lambda qv, M, x, l: qv.utils.approximate_qubo_extrema(M), pure=True)
_simple("utils.approximate_puso_extrema", SPIN_FORMS, True, False,
        lambda qv, M, x, l: qv.utils.approximate_puso_extrema(M), pure=True)
_simple("utils.approximate_quso_extrema", SPIN_Q, True, True,
        lambda qv, M, x, l: qv.utils.approximate_quso_extrema(M), pure=True)
_simple("utils.get_info/bool", gen.BOOL_KINDS, False, False, lambda qv, M, x, l: qv.utils.get_info(M), pure=True)
_simple("utils.get_info/spin", gen.SPIN_KINDS, True, False, lambda qv, M, x, l: qv.utils.get_info(M), pure=True)
_simple("utils.normalize/bool", BOOL_FORMS, False, False,
        lambda qv, M, x, l: qv.utils.normalize(M, x["value"]), fresh=True, min_terms=1, nonempty=True)
_simple("utils.normalize/spin", SPIN_FORMS, True, False,
        lambda qv, M, x, l: qv.utils.normalize(M, x["value"]), fresh=True, min_terms=1, nonempty=True)


def _set_mapping_entries():
    """set_mapping(d) must not keep the caller's dict: editing the model afterwards (a new variable gets a
    mapping entry) must leave d unchanged, and editing d must leave the model's mapping unchanged."""
    for fam, kinds, spin in (("bool", ["QUBO", "PUBO", "PCBO"], False), ("spin", ["QUSO", "PUSO", "PCSO"], True)):
        for which in ("set_mapping", "set_reverse_mapping"):
            def make(which=which):
                def run(qv, objs, x, labels):
                    M = objs[0]
                    mp = M.mapping
                    n = len(mp)
                    if n < 1:
                        raise Skip("no_variables")
                    new = {l: n - 1 - i for l, i in mp.items()}
                    arg = new if which == "set_mapping" else {i: l for l, i in new.items()}

                    def post(res):
                        M[("__new_label__",)] += 1           # the model grows: its own mapping gets an entry
                        after = M.mapping
                        arg["__caller_edit__"] = 99          # the caller goes on using its dict
                        if M.mapping != after:
                            raise Violation("model_mapping_follows_callers_dict/" + which,
                                            "editing the dict passed to %s changed the model's mapping" % which)
                        del arg["__caller_edit__"]
                    return {"watch": [("mapping_argument", arg)], "call": lambda: getattr(M, which)(arg), "post": post}
                return run
            entry("%s/%s" % (which, fam), [Slot(kinds, spin, quad=True, min_terms=1)])(make())


_set_mapping_entries()


def _to_entries():
    for fam, kinds, spin in (("bool", ["QUBO", "PUBO", "PCBO"], False), ("spin", ["QUSO", "PUSO", "PCSO"], True)):
        for meth in ("to_qubo", "to_quso", "to_pubo", "to_puso", "to_enumerated"):
            def make(meth=meth):
                def run(qv, objs, x, labels):
                    M = objs[0]
                    kind = type(M).__name__
                    args, kw, watch = [], {}, [("model", M)]
                    if kind[0] == "P" and meth != "to_enumerated":
                        if meth in ("to_pubo", "to_puso") and x["deg"] is not None:
                            kw["deg"] = x["deg"]
                        if x["pairs"] is not None:
                            pairs = {tuple(pr) for pr in x["pairs"]}
                            kw["pairs"] = pairs
                            watch.append(("pairs", pairs))
                        if x["flag"]:
                            kw["lam"] = (lambda v: abs(v) + 1)
                    return {"watch": watch, "call": lambda: getattr(M, meth)(*args, **kw)}
                return run
            entry("M.%s/%s" % (meth, fam), [Slot(kinds, spin)], fresh=True)(make())


_to_entries()


def _value_entries():
    for name, forms, spin, quad in (("pubo_value", BOOL_FORMS, False, False), ("qubo_value", BOOL_Q, False, True),
                                    ("puso_value", SPIN_FORMS, True, False), ("quso_value", SPIN_Q, True, True)):
        def make(name=name, spin=spin):
            def run(qv, objs, x, labels):
                M = objs[0]
                a = _assignment(M, labels, x["bits"], spin, as_list=x["flag"])
                return {"watch": [("assignment", a), ("model", M)], "call": lambda: getattr(qv.utils, name)(a, M)}
            return run
        entry("utils." + name, [Slot(forms, spin, quad=quad)])(make())
    for fam, kinds, spin in (("bool", gen.BOOL_KINDS, False), ("spin", gen.SPIN_KINDS, True)):
        for meth in ("value", "is_solution_valid"):
            def make(meth=meth, spin=spin):
                def run(qv, objs, x, labels):
                    M = objs[0]
                    a = _assignment(M, labels, x["bits"], spin, as_list=x["flag"])
                    return {"watch": [("assignment", a), ("model", M)], "call": lambda: getattr(M, meth)(a)}
                return run
            entry("M.%s/%s" % (meth, fam), [Slot(kinds, spin)])(make())

        def run_cs(qv, objs, x, labels, spin=spin):
            M = objs[0]
            n = M.num_binary_variables + (x["idx"] % 3)
            vals = [(1 - 2 * b if x["flag2"] else b) for _, b in zip(range(n), itertools.cycle(x["bits"]))]
            sol = vals if x["flag"] else dict(enumerate(vals))
            return {"watch": [("solution", sol), ("model", M)],
                    "call": lambda: M.convert_solution(sol, spin=bool(x["flag2"]))}
        entry("M.convert_solution/" + fam, [Slot([k for k in kinds if not gen.is_matrix(k)], spin)])(run_cs)

        def run_ra(qv, objs, x, labels, spin=spin):
            M = objs[0]
            a = _assignment(M, labels, x["bits"], spin)
            a["__a0"] = a["__a7"] = 1
            return {"watch": [("solution", a), ("model", M)], "call": lambda: M.remove_ancilla_from_solution(a)}
        entry("M.remove_ancilla_from_solution/" + fam, [Slot(["PCSO" if spin else "PCBO"], spin)])(run_ra)


_value_entries()


def _solver_entries():
    for name, forms, spin, quad in (("solve_pubo_bruteforce", BOOL_FORMS, False, False),
                                    ("solve_qubo_bruteforce", BOOL_Q, False, True),
                                    ("solve_puso_bruteforce", SPIN_FORMS, True, False),
                                    ("solve_quso_bruteforce", SPIN_Q, True, True)):
        def make(name=name):
            def run(qv, objs, x, labels):
                M = objs[0]
                if len(_labels_of(M)) > 9:
                    raise Skip("too_big")
                if type(M) is dict and () not in M and x["idx"] % 3 == 0:
                    M[()] = 0          # an explicit zero constant belongs to the caller's dict like any other entry
                kw = {}
                if x["flag2"]:
                    mask = x["mask"] | 1
                    kw["valid"] = lambda a: bool((mask >> (sum(1 for v in a.values() if v == 1) % 6)) & 1)
                return {"watch": [("model", M)], "call": lambda: getattr(qv.utils, name)(M, x["flag"], **kw)}
            return run
        entry("utils." + name, [Slot(forms, spin, quad=quad)])(make())
    for fam, kinds, spin in (("bool", gen.BOOL_KINDS, False), ("spin", gen.SPIN_KINDS, True)):
        def run(qv, objs, x, labels):
            M = objs[0]
            if len(_labels_of(M)) > 9:
                raise Skip("too_big")
            if hasattr(M, "_constraints"):
                vs = M.variables
                if any(l not in vs for v in M._constraints.values() for c in v for k in c for l in k):
                    raise Skip("constraint_label_not_in_model")
            return {"watch": [("model", M)], "call": lambda: M.solve_bruteforce(x["flag"])}
        entry("M.solve_bruteforce/" + fam, [Slot(kinds, spin)])(run)


_solver_entries()


def _graph_entries():
    for fam, forms, kinds, spin in (("bool", BOOL_FORMS, gen.BOOL_KINDS, False), ("spin", SPIN_FORMS, gen.SPIN_KINDS, True)):
        def pieces(x, labels, spin):
            nodes = {l for i, l in enumerate(labels) if (x["mask"] >> i) & 1}
            rest = [l for l in labels if l not in nodes]
            conn = {l: (1 - 2 * b if spin else b) for l, b in zip(rest, itertools.cycle(x["bits"]))}
            if x["flag2"] and conn:
                conn.pop(sorted(conn, key=_okey)[0])
            return nodes, conn

        def run_sg(qv, objs, x, labels, spin=spin):
            G = objs[0]
            nodes, conn = pieces(x, labels, spin)
            nodes = nodes if x["flag"] else sorted(nodes, key=_okey)
            c = conn if x["idx"] % 3 else None
            return {"watch": [("G", G), ("nodes", nodes), ("connections", c)],
                    "call": lambda: qv.utils.subgraph(G, nodes, c)}
        entry("utils.subgraph/" + fam, [Slot(forms, spin)], fresh=True)(run_sg)

        def run_sv(qv, objs, x, labels, spin=spin):
            G = objs[0]
            nodes, conn = pieces(x, labels, spin)
            return {"watch": [("G", G), ("values", conn)], "call": lambda: qv.utils.subvalue(conn, G)}
        entry("utils.subvalue/" + fam, [Slot(forms, spin)], fresh=True)(run_sv)

        def run_msg(qv, objs, x, labels, spin=spin):
            G = objs[0]
            nodes, conn = pieces(x, labels, spin)
            c = conn if x["idx"] % 3 else None
            return {"watch": [("model", G), ("nodes", nodes), ("connections", c)], "call": lambda: G.subgraph(nodes, c)}
        entry("M.subgraph/" + fam, [Slot(kinds, spin)], fresh=True)(run_msg)

        def run_msv(qv, objs, x, labels, spin=spin):
            G = objs[0]
            nodes, conn = pieces(x, labels, spin)
            return {"watch": [("model", G), ("values", conn)], "call": lambda: G.subvalue(conn)}
        entry("M.subvalue/" + fam, [Slot(kinds, spin)], fresh=True)(run_msv)


_graph_entries()


def _info_entries():
    for fam, kinds, spin in (("bool", gen.BOOL_KINDS, False), ("spin", gen.SPIN_KINDS, True)):
        def run(qv, objs, x, labels):
            M = objs[0]
            info = qv.utils.get_info(M)
            return {"watch": [("info", info), ("model", M)], "call": lambda: qv.utils.create_from_info(info)}
        entry("utils.create_from_info/" + fam, [Slot(kinds, spin, max_cons=2)], fresh=True)(run)


_info_entries()


def _make_stale(M, x, labels):
    """Every third case: a labelled model that still reports a variable whose only term cancelled (no refresh)."""
    if _is_model(M) and not gen.is_matrix(type(M).__name__) and x["idx"] % 3 == 0:
        k = ("stale_extra",)          # a label that occurs in no term of M
        M[k] += 1
        M[k] -= 1


def _anneal_entries():
    for name, forms, spin, quad in (("anneal_qubo", BOOL_Q, False, True), ("anneal_quso", SPIN_Q, True, True),
                                    ("anneal_pubo", BOOL_FORMS, False, False), ("anneal_puso", SPIN_FORMS, True, False)):
        def make(name=name, spin=spin):
            def run(qv, objs, x, labels):
                M = objs[0]
                if _is_model(M):
                    M.refresh()
                if not any(k for k in dict.keys(M)):
                    raise Skip("no_variable_term")
                _make_stale(M, x, labels)
                init = None
                if x["flag"]:
                    if _is_model(M) and gen.is_matrix(type(M).__name__):
                        ls = range(max(M.variables) + 1)
                    elif _is_model(M):
                        ls = sorted(M.variables, key=_okey)     # includes a variable whose terms cancelled
                    else:
                        ls = sorted(_labels_of(M), key=_okey)
                    init = {l: (1 - 2 * b if spin else b) for l, b in zip(ls, itertools.cycle(x["bits"]))}
                sched = list(x["sched"]) if isinstance(x["sched"], (list, tuple)) else x["sched"]
                tr = tuple(x["trange"]) if x["trange"] is not None and isinstance(sched, str) else None
                kw = dict(num_anneals=1 + (x["idx"] % 2), anneal_duration=x["dur"], initial_state=init,
                          temperature_range=tr, schedule=sched, in_order=bool(x["flag2"]), seed=x["seed"])
                return {"watch": [("model", M), ("initial_state", init), ("schedule", sched)],
                        "call": lambda: getattr(qv.sim, name)(M, **kw)}
            return run
        entry("sim." + name, [Slot(forms, spin, quad=quad, min_terms=1, max_cons=1, varterm=True)])(make())
    for fam, forms, spin in (("bool", BOOL_FORMS, False), ("spin", SPIN_FORMS, True)):
        def run(qv, objs, x, labels, spin=spin):
            M = objs[0]
            if _is_model(M):
                M.refresh()
            _make_stale(M, x, labels)
            return {"watch": [("model", M)],
                    "call": lambda: qv.sim.anneal_temperature_range(M, 0.5, 0.01 if x["flag"] else 0.25, spin=spin)}
        entry("sim.anneal_temperature_range/" + fam, [Slot(forms, spin, min_terms=1, varterm=True)])(run)


_anneal_entries()


def _arith_entries():
    for fam, kinds, forms, spin in (("bool", gen.BOOL_KINDS, BOOL_FORMS, False), ("spin", gen.SPIN_KINDS, SPIN_FORMS, True)):
        ops = {
            "add": lambda A, B: A + B, "sub": lambda A, B: A - B, "mul": lambda A, B: A * B,
            "radd": lambda A, B: B + A, "rsub": lambda A, B: B - A, "rmul": lambda A, B: B * A,
            "eq": lambda A, B: A == B,
        }
        for oname, f in ops.items():
            def make(f=f):
                def run(qv, objs, x, labels):
                    A, B = objs
                    return {"watch": [("left", A), ("right", B)], "call": lambda: f(A, B), "expect": (KeyError,)}
                return run
            entry("op.%s/%s" % (oname, fam), [Slot(kinds, spin, tiny=True), Slot(forms, spin, tiny=True)], fresh=True)(make())
        iops = {
            "iadd": lambda A, B: A.__iadd__(B), "isub": lambda A, B: A.__isub__(B), "imul": lambda A, B: A.__imul__(B),
            "update": lambda A, B: A.update(B), "ctor": lambda A, B: type(A)(B),
        }
        for oname, f in iops.items():
            def make(f=f):
                def run(qv, objs, x, labels):
                    A, B = objs
                    return {"watch": [("other", B)], "call": lambda: f(A, B), "expect": (KeyError,)}
                return run
            entry("op.%s(other)/%s" % (oname, fam), [Slot(kinds, spin, tiny=True), Slot(forms, spin, tiny=True)])(make())
        uops = {"pow2": lambda A: A ** 2, "neg": lambda A: -A, "round": lambda A: round(A, 1), "mul_scalar": lambda A: 3 * A}
        for oname, f in uops.items():
            def make(f=f):
                def run(qv, objs, x, labels):
                    A = objs[0]
                    return {"watch": [("model", A)], "call": lambda: f(A), "expect": (KeyError,)}
                return run
            entry("op.%s/%s" % (oname, fam), [Slot(kinds, spin, tiny=True)], fresh=True)(make())

        def run_sum(qv, objs, x, labels):
            xs = list(objs[: 2 + x["idx"] % 2])
            return {"watch": [("element%d" % i, o) for i, o in enumerate(xs)] + [("iterable", xs)],
                    "call": lambda: qv.utils.sum(xs), "expect": (KeyError,)}
        entry("utils.sum/" + fam, [Slot(kinds, spin, tiny=True), Slot(forms, spin, tiny=True), Slot(forms, spin, tiny=True)],
              fresh=True)(run_sum)


_arith_entries()

ENTRY_NAMES = sorted(CATALOGUE)
# entries behind the DESIGN mutants (sat gates, comparison constraints) get a larger share
HEAVY = {n for n in ENTRY_NAMES if n.startswith("sat.") or n.endswith("_zero")}


def entry_cases(name):
    """Strategy of specs for one catalogue entry.  One Sub per entry: a single top-level sampled_from over 126 names is
    drawn very unevenly by Hypothesis (measured: 59 of 126 names in 600 examples)."""
    e = CATALOGUE[name]
    slots = e["slots"]
    forms = st.tuples(*[st.sampled_from(s.forms) for s in slots])

    def with_forms(fs):
        matrix = any(gen.is_matrix(f) for f in fs)
        return gen.label_pool(matrix, max(2, e["n_min"]), 6).flatmap(
            lambda labels: st.fixed_dictionaries({
                "entry": st.just(name),
                "labels": st.just(labels),
                "polys": st.tuples(*[poly_spec(labels, f, s.spin, quad=s.quad, tiny=s.tiny, boolexpr=s.boolexpr,
                                               min_terms=s.min_terms, max_cons=s.max_cons, plain=s.plain, varterm=s.varterm,
                                               stale=not (s.plain or s.boolexpr or s.tiny))
                                     for f, s in zip(fs, slots)]).map(list),
                "x": st.fixed_dictionaries({
                    "lam": st.sampled_from([0, 0.5, 1, 2]),
                    "log_trick": st.booleans(), "flag": st.booleans(), "flag2": st.booleans(),
                    "bits": st.integers(0, 4095).map(lambda v: [(v >> i) & 1 for i in range(12)]),
                    "idx": st.integers(0, 50), "seed": st.integers(0, 10 ** 6),
                    "opmask": st.sampled_from([15, 15, 7, 5, 3, 1, 2, 6, 0, 9, 14]),
                    "n_ops": st.integers(1, 3),
                    "deg": st.sampled_from([None, 2, 3]),
                    "pairs": st.one_of(st.none(), st.lists(
                        st.lists(st.sampled_from(labels), min_size=2, max_size=2), min_size=0, max_size=3)),
                    "sched": st.sampled_from(["geometric", "linear", [2.0, 1.0, 0.5], [1.5]]),
                    "trange": st.sampled_from([None, [3.0, 0.5]]),
                    "dur": st.integers(1, 5),
                    "value": st.sampled_from([1, 2, 0.5]),
                    "mask": st.integers(0, 63),
                }),
            }))
    return forms.flatmap(with_forms)


def run_args(spec, rec):
    import qubovert as qv
    with warnings.catch_warnings():
        warnings.simplefilter("ignore")
        _run_args(spec, rec, qv)


def _cmp(name, what, watch, before, ctx, stage):
    for (wname, obj), b in zip(watch, before):
        a = deep(obj)
        if a != b:
            raise Violation("arg_mutated/%s/%s%s" % (name, wname, stage),
                            "%s: argument %s %s: before=%r after=%r; %s" % (name, wname, what, b, a, ctx))


def _run_args(spec, rec, qv):
    name = spec["entry"]
    e = CATALOGUE[name]
    x = spec["x"]
    labels = list(spec["labels"])
    objs = [mk(qv, p) for p in spec["polys"]]
    ctx = "spec=%r" % ({"polys": spec["polys"], "x": x},)
    try:
        plan = e["run"](qv, objs, x, labels)
    except Skip as s:
        rec.add("skipped/%s/%s" % (name, s))
        return
    watch = [(n, o) for n, o in plan["watch"] if o is not None]
    before = [deep(o) for _, o in watch]
    expect = plan.get("expect", ())
    raised = False
    try:
        res = lib(plan["call"], what=name, expect=expect)
    except expect:
        raised = True
        res = None
        rec.add("documented_exception/" + name)
    _cmp(name, "changed by the call", watch, before, ctx, "")
    if not raised:
        if plan.get("post"):
            plan["post"](res)
            _cmp(name, "changed by the post-check", watch, before, ctx, "/post")
        if e["fresh"]:
            for wname, obj in watch:
                if res is obj:
                    raise Violation("result_is_argument/%s/%s" % (name, wname), "the call returned its argument object; " + ctx)
            if _is_model(res):
                def f(res=res):
                    res += 1
                    res *= 2
                lib(f, what="mutate_result/" + name)
                _cmp(name, "changed by mutating the returned object", watch, before, ctx, "/result_alias")
    mutable = any(isinstance(o, (dict, list, set)) for _, o in watch)
    forms = sorted({"form=" + p["form"] for p in spec["polys"][: len(e["slots"])]})
    rec.case(spec, mutable and name not in PURE_GETTERS, ["entry=" + name] + forms + (["raised"] if raised else []))


def extra_evidence(tier, merged):
    got = {k.split("/entry=", 1)[1] for k, v in merged["classes"].items() if "/entry=" in k and v}
    return {"catalogue_size": len(ENTRY_NAMES), "catalogue_entries_exercised": len(got),
            "catalogue_entries_missing": sorted(set(ENTRY_NAMES) - got)}


def _subname(name):
    return "args." + "".join(c if (c.isalnum() or c in "._") else "_" for c in name)


def subchecks(tier):
    subs = [
        Sub("info", info_cases(), run_info, quick=2500, thorough=40000),
        Sub("alias", alias_cases(), run_alias, quick=3500, thorough=50000),
    ]
    for name in ENTRY_NAMES:
        heavy = name in HEAVY
        subs.append(Sub(_subname(name), entry_cases(name), run_args,
                        quick=96 if heavy else 60, thorough=1600 if heavy else 960))
    return subs
