"""C01 — degree reduction never undercuts the model and is exact on consistent ancillas.

enum : small refreshed models; full truth tables of M (n variables) and of the
       reduced form D (n + a variables).
cert : larger models (n <= 12, degree <= 8); the reduction certificate recorded
       by the guarded hook in PUBO._reduce_degree is validated step by step and
       D is compared with the polynomial the certificate implies (identity),
       plus sampled assignments.
"""
import itertools
import warnings

import numpy as np
from hypothesis import strategies as st

from . import gen, ref
from .common import Sub, Violation, lib

ID = "C01"
RULE = ("enum: Hypothesis-generated refreshed PUBO/PUSO/PCBO/PCSO models (<=6 labels of mixed types, degree<=6, 1..6 dyadic terms, "
        "optional offset, PCBO/PCSO optionally with a comparison constraint) x target (to_qubo, to_quso, to_pubo(deg), to_puso(deg), deg 2..5) "
        "x pairs hints (none / present / absent / unknown labels / degenerate) x penalty (default, callable |v|+c, constant tight = max|boolean-form "
        "coefficient|, constant loose, small constant, small callable); oracle on complete truth tables: exists exact extension for every x (any penalty); "
        "min over ancillas == M and every arg-min converts to a minimiser (penalty >= |coefficient|); degree, type, label discipline, "
        "convert_solution for dict/list/tuple in boolean and spin form, M unchanged. cert: models up to 12 variables / degree 8 validated through "
        "the reduction certificate (step validity, polynomial identity of D, penalties >= |v|, sampled assignments). "
        "Non-trivial = at least one ancilla was introduced. Distinct = distinct spec hash.")
ASSUMPTIONS = [
    "models are in refreshed bookkeeping state (stale states are C14's subject); coefficients and penalties are dyadic so all comparisons are exact",
    "'penalty >= |coefficient|' is taken w.r.t. the boolean form that is actually reduced (spin models are converted to boolean form first)",
    "cert sub-check needs the guarded hook (JTIOSUE_QUBOVERT_VERIF=1); if the certificate is absent the case is counted 'certificate_absent' and skipped",
    "truth tables only when n + ancillas <= 16 (bigger cases counted too_big); symbolic penalties are C16's subject",
]

TARGET_TYPE = {"to_qubo": "QUBOMatrix", "to_quso": "QUSOMatrix", "to_pubo": "PUBOMatrix", "to_puso": "PUSOMatrix"}
KINDS = ["PUBO", "PUSO", "PCBO", "PCSO"]

# the reduction gadget lam*(3z + xy - 2xz - 2yz): 0 iff z == x*y, >= lam otherwise (checked once)
for _x, _y, _z in itertools.product((0, 1), repeat=3):
    _g = 3 * _z + _x * _y - 2 * _x * _z - 2 * _y * _z
    assert (_g == 0) == (_z == _x * _y) and (_g >= 1 or _z == _x * _y)


def _dedupe_canon(terms, spin):
    seen, out = set(), []
    for k, v in terms:
        c = next(iter(ref.canon({tuple(k): 1}, spin)), frozenset())
        if c in seen:
            continue
        seen.add(c)
        out.append([tuple(k), v])
    return out


def lam_strategy():
    return st.one_of(
        st.just(("none",)),
        st.just(("none",)),
        st.tuples(st.just("abs"), st.sampled_from([0, 0, 0.5, 1, 3.25])),
        st.just(("const_tight",)),
        st.tuples(st.just("const_loose"), st.sampled_from([0.5, 1, 10])),
        st.tuples(st.just("small_const"), st.sampled_from([0.25, 0.125])),
        st.tuples(st.just("small_callable"), st.sampled_from([0.125, 0.5])),
    )


def enum_strategy(n_max=6, max_deg=6, max_terms=6):
    def for_kind(kind):
        spin = gen.is_spin(kind)

        def for_labels(labels):
            hi = st.tuples(gen.key_strategy(labels, max_deg, False, min_deg=min(3, len(labels))), gen.MIXED_COEFS).map(list)
            terms = st.tuples(st.lists(hi, min_size=0, max_size=2),
                              gen.poly_strategy(labels, max_terms, max_deg, gen.MIXED_COEFS, repeats=True, min_terms=1)).map(
                lambda t: _dedupe_canon(t[0] + t[1], spin))
            pair = st.tuples(st.sampled_from(labels + ["zz_unknown"]), st.sampled_from(labels + ["zz_unknown"]))
            cons = st.none()
            if kind in ("PCBO", "PCSO") and len(labels) <= 4:
                cons = st.one_of(st.none(), st.none(), st.tuples(
                    st.sampled_from(["le", "ne", "ge", "eq"]),
                    gen.poly_strategy(labels, 2, 2, gen.SMALL_INT_COEFS, min_terms=1, offset=True)))
            return st.fixed_dictionaries({
                "kind": st.just(kind), "labels": st.just(labels), "terms": terms,
                "constraint": cons,
                "target": gen.pick(("to_qubo", 1), ("to_quso", 1), ("to_pubo", 1), ("to_puso", 1)),
                "deg": gen.pick((2, 3), (3, 3), (4, 1), (5, 1)),
                "pairs": st.one_of(st.none(), st.lists(pair, min_size=1, max_size=3)),
                "lam": lam_strategy(),
                "rows": st.lists(st.integers(0, 2 ** 20), min_size=1, max_size=4),
                # export once, install another mapping with set_mapping, then run the check on the same object
                "remap": gen.pick((False, 5), ("set_mapping", 1), ("set_reverse_mapping", 1), ("edit", 1),
                                  ("other_export", 1), ("copy_edit", 1)),
                "pre": st.tuples(gen.pick(("to_qubo", 1), ("to_quso", 1), ("to_pubo", 1), ("to_puso", 1)),
                                 gen.pick((2, 2), (3, 2), (4, 1))).map(list),
                "edit": st.tuples(st.integers(0, 7), st.sampled_from([1, -1, 0.5, -2])).map(list),
                "ctype": gen.CTYPE,
                "dup": st.one_of(st.none(), st.none(), st.tuples(st.integers(0, 7), st.booleans(), st.sampled_from([1, -2, 0.5, 3])).map(list)),
            })
        return st.integers(0, 9).flatmap(lambda r: gen.label_pool(False, 3 if r else 1, n_max)).flatmap(for_labels)
    return st.sampled_from(KINDS).flatmap(for_kind)


# ---------------------------------------------------------------------------

def build_model(qv, spec):
    kind = spec["kind"]
    terms = [[tuple(k), gen.wrap_number(v, spec.get("ctype"))] for k, v in spec["terms"]]
    dup = spec.get("dup")
    if dup is not None and terms:
        # one monomial is entered a second time with its labels in another order (the model adds the two up)
        k0, v0 = terms[dup[0] % len(terms)]
        if len(k0) >= 2:
            terms.append([tuple(k0[1:] + k0[:1]) if dup[1] else tuple(reversed(k0)), gen.wrap_number(dup[2], spec.get("ctype"))])
    M = gen.build_from_dict(qv, kind, terms)
    c = spec.get("constraint")
    if c:
        rel, cterms = c
        with warnings.catch_warnings():
            warnings.simplefilter("ignore")
            getattr(M, "add_constraint_%s_zero" % rel)(gen.terms_dict(cterms), lam=2)
        if M.num_binary_variables > 8:
            return None
        M.refresh()
    return M


REMAP_MODES = ("set_mapping", "set_reverse_mapping", "edit", "other_export", "copy_edit")


def maybe_remap(M, spec):
    """Documented use: conversions follow the mapping and the terms in force *at the time of the call*.  Export once
    (any cache gets filled), then change the model through documented API - install a different bijection with
    set_mapping / set_reverse_mapping, edit a coefficient (followed by refresh(), so the bookkeeping is exact again),
    or continue on an edited copy - or simply ask for a different form; the judged conversion comes after that.
    Returns (model to judge, class label or None)."""
    mode = spec.get("remap")
    if not mode:
        return M, None
    if mode is True:
        mode = "set_mapping"
    mp = M.mapping
    n = len(mp)
    if n < 2:
        return M, None
    t = spec["target"]
    pre = spec.get("pre") or [t, spec["deg"]]
    if mode != "other_export":
        pre = [t, spec["deg"]]
    with warnings.catch_warnings():
        warnings.simplefilter("ignore")
        if pre[0] in ("to_qubo", "to_quso"):
            lib(getattr(M, pre[0]), what=pre[0] + "(first export)")
        else:
            lib(getattr(M, pre[0]), pre[1], what=pre[0] + "(first export)")
    if mode in ("set_mapping", "set_reverse_mapping"):
        new = {l: n - 1 - i for l, i in mp.items()}
        if mode == "set_mapping":
            lib(M.set_mapping, new, what="set_mapping")
        else:
            lib(M.set_reverse_mapping, {i: l for l, i in new.items()}, what="set_reverse_mapping")
        if M.mapping != new or M.reverse_mapping != {i: l for l, i in new.items()}:
            raise Violation("%s_not_installed" % mode, "asked %r got %r / %r" % (new, M.mapping, M.reverse_mapping))
    elif mode in ("edit", "copy_edit"):
        if mode == "copy_edit":
            M = lib(M.copy, what="copy")
        keys = sorted(dict.keys(M), key=lambda k: (len(k), repr(k)))
        idx, c = spec.get("edit") or [0, 1]
        k = keys[idx % len(keys)] if keys else ()
        hi = keys[-1] if keys else ()

        def f():
            M[k] += c                  # may cancel the term
            M[hi] = M[hi] * 2 + 1      # never zero for the dyadic coefficients in use: the top-degree term stays
        lib(f, what="edit")
        lib(M.refresh, what="refresh")
    return M, "after_" + mode


def boolean_form(M_canon, spin):
    return ref.spin_to_bool_canon(M_canon) if spin else M_canon


def make_lam(lamspec, bool_form, deg):
    """Return (lam argument, is_ge_class, description)."""
    kind = lamspec[0]
    need = [abs(v) for k, v in bool_form.items() if len(k) > deg]
    mx = max(need) if need else 0
    if kind == "none":
        return None, True
    if kind == "abs":
        c = lamspec[1]
        return (lambda v: abs(v) + c), True
    if kind == "const_tight":
        return (mx if mx else 1), True
    if kind == "const_loose":
        return mx + lamspec[1], True
    if kind == "small_const":
        return lamspec[1], (lamspec[1] >= mx)
    if kind == "small_callable":
        c = lamspec[1]
        return (lambda v: c), (c >= mx)
    raise AssertionError(kind)


def call_target(M, spec, lam):
    t = spec["target"]
    pairs = spec["pairs"]
    if pairs is not None:
        pairs = {tuple(p) for p in pairs}
    if t in ("to_qubo", "to_quso"):
        return lib(getattr(M, t), lam=lam, pairs=pairs, what=t), 2
    return lib(getattr(M, t), spec["deg"], lam, pairs, what=t), spec["deg"]


def check_common(qv, M, D, spec, deg, snap):
    t = spec["target"]
    if type(D).__name__ != TARGET_TYPE[t]:
        raise Violation("result_type/%s" % t, "%s returned %s" % (t, type(D).__name__))
    if gen.snapshot(M) != snap:
        raise Violation("source_mutated/%s" % t, "%r -> %r" % (snap, gen.snapshot(M)))
    n = M.num_binary_variables
    labels = set()
    mxlen = 0
    for k in dict.keys(D):
        labels.update(k)
        mxlen = max(mxlen, len(k))
    for l in labels:
        if not isinstance(l, int) or isinstance(l, bool) or l < 0:
            raise Violation("label_not_nonneg_int/%s" % t, "label %r in %r" % (l, dict(D)))
    if mxlen > deg:
        raise Violation("degree_exceeds_request/%s" % t, "requested %d, got term of degree %d: %r" % (deg, mxlen, dict(D)))
    if D.degree > deg and len(D):
        raise Violation("reported_degree_exceeds_request/%s" % t, "D.degree=%r requested %r" % (D.degree, deg))
    return n, sorted(l for l in labels if l >= n)


def run_enum(spec, rec):
    import qubovert as qv
    with warnings.catch_warnings():
        warnings.simplefilter("ignore")
        _run_enum(qv, spec, rec)


def _run_enum(qv, spec, rec):
    kind = spec["kind"]
    spin_src = gen.is_spin(kind)
    M = lib(build_model, qv, spec, what="build")
    if M is None:
        rec.add("skipped_constraint_too_big")
        return
    M, remapped = maybe_remap(M, spec)
    snap = gen.snapshot(M)
    mcanon = ref.canon(dict(M), spin_src)
    bform = boolean_form(mcanon, spin_src)
    t = spec["target"]
    deg_req = 2 if t in ("to_qubo", "to_quso") else spec["deg"]
    lam, ge_class = make_lam(spec["lam"], bform, deg_req)
    D, deg = call_target(M, spec, lam)
    n, anc = check_common(qv, M, D, spec, deg, snap)
    a = len(anc)
    spin_dst = t in ("to_quso", "to_puso")
    classes = [kind, t, "lam=" + spec["lam"][0], "pairs=" + ("none" if spec["pairs"] is None else "given"),
               "anc=%d" % min(a, 6)]
    if spec.get("constraint"):
        classes.append("with_constraint")
    if remapped:
        classes.append(remapped)
    if spec.get("ctype") not in (None, "plain"):
        classes.append("ctype=" + spec["ctype"])
    mp = M.mapping
    rmp = M.reverse_mapping
    if sorted(mp.values()) != list(range(n)):
        raise Violation("mapping_not_bijection", "mapping=%r n=%r" % (mp, n))
    if n + a > 16:
        rec.add("too_big")
        rec.case(spec, False, classes + ["too_big"])
        return
    src_terms = {tuple(mp[l] for l in k): v for k, v in ref.canon_to_terms(mcanon).items()}
    tm = ref.table(src_terms, list(range(n)), spin_src)
    order = list(range(n)) + anc
    td = ref.table(dict(D), order, spin_dst).reshape(1 << a, 1 << n)
    # (1) every x has an extension with D == M (any penalty)
    hit = (td == tm[None, :]).any(axis=0)
    if not hit.all():
        x = int(np.nonzero(~hit)[0][0])
        raise Violation("no_exact_extension/%s" % t,
                        "x=%r: M(x)=%r but D(x, a) takes %r; M=%r mapping=%r D=%r" %
                        (ref.assignment([rmp[i] for i in range(n)], x, spin_src), tm[x], sorted(set(td[:, x].tolist()))[:8],
                         dict(M), mp, dict(D)))
    # (2) penalty >= |coefficient|: D(s) >= M(convert(s)) for all s  <=>  min over ancillas == M (with (1))
    if ge_class:
        mn = td.min(axis=0)
        if not np.array_equal(mn, tm):
            x = int(np.nonzero(mn != tm)[0][0])
            raise Violation("undercut/%s/lam=%s" % (t, spec["lam"][0]),
                            "x=%r: min_a D(x,a)=%r < M(x)=%r; M=%r mapping=%r lam=%r D=%r" %
                            (ref.assignment([rmp[i] for i in range(n)], x, spin_src), mn[x], tm[x], dict(M), mp, spec["lam"], dict(D)))
        if td.min() != tm.min():
            raise Violation("minimum_differs/%s" % t, "%r vs %r" % (td.min(), tm.min()))
    # (3) convert_solution on arg-mins (ge class) and on generated rows
    rows = []
    if ge_class:
        flat = td.reshape(-1)
        am = np.nonzero(flat == flat.min())[0][:4].tolist()
        rows += [(int(r), True) for r in am]
    rows += [(r % (1 << (n + a)), False) for r in spec["rows"]]
    # model part all zeros / all ones combined with a single ancilla bit set or all of them (inconsistent
    # ancillas, where the boolean / spin form of the *whole* vector is what makes the form unambiguous)
    ones = (1 << n) - 1
    for j in range(min(a, 3)):
        rows += [((1 << (n + j)), False), (ones | (1 << (n + j)), False)]
    if a:
        rows += [((((1 << a) - 1) << n), False), (ones, False)]
    contiguous = anc == list(range(n, n + a))
    for r, is_argmin in rows:
        x = r & ((1 << n) - 1)
        for form_spin in (False, True):
            vals = {l: (1 - 2 * ((r >> i) & 1)) if form_spin else ((r >> i) & 1) for i, l in enumerate(order)}
            conts = [("dict", vals)]
            if contiguous:
                lst = [vals[i] for i in range(n + a)]
                conts += [("list", lst), ("tuple", tuple(lst))]
            # the spin= flag is documented to matter only for all-ones solutions: when the supplied
            # solution contains a 0 (boolean form) or a -1 (spin form) it may be omitted
            unambiguous = any(v == (-1 if form_spin else 0) for v in vals.values())
            for cname, sol in conts:
                want = {rmp[i]: ((1 - 2 * ((x >> i) & 1)) if spin_src else ((x >> i) & 1)) for i in range(n)}
                got = lib(M.convert_solution, sol, spin=form_spin, what="convert_solution")
                if got != want:
                    raise Violation("convert_solution/%s/%s" % (cname, "spin" if form_spin else "bool"),
                                    "solution %r (spin=%r) -> %r, expected %r; mapping=%r" % (sol, form_spin, got, want, mp))
                if unambiguous:
                    got = lib(M.convert_solution, sol, what="convert_solution(no flag)")
                    if got != want:
                        raise Violation("convert_solution_noflag/%s/%s" % (cname, "spin" if form_spin else "bool"),
                                        "solution %r (flag omitted, form unambiguous) -> %r, expected %r; mapping=%r" % (sol, got, want, mp))
        if is_argmin and tm[x] != tm.min():
            raise Violation("argmin_not_minimiser/%s" % t, "arg-min row %d of D maps to x with M=%r, min M=%r" % (r, tm[x], tm.min()))
    rec.case(spec, a >= 1, classes)


# ---------------------------------------------------------------------------
# certificate mode

BIG_POOLS = [list(range(12)), ["v%d" % i for i in range(12)],
             [0, "a", 1, "b", ("x", 1), -3, 7, "c", ("y", 0), 11, "d", 5]]


def cert_strategy():
    def for_kind(kind):
        spin = gen.is_spin(kind)

        def for_labels(labels):
            key = gen.key_strategy(labels, 8 if not spin else 6, False, min_deg=0)
            hi = gen.key_strategy(labels, 8 if not spin else 6, False, min_deg=4)
            terms = st.tuples(st.lists(st.tuples(hi, gen.MIXED_COEFS).map(list), min_size=1, max_size=3),
                              st.lists(st.tuples(key, gen.MIXED_COEFS).map(list), min_size=0, max_size=6)).map(
                lambda t: _dedupe_canon(t[0] + t[1], spin))
            pair = st.tuples(st.sampled_from(labels), st.sampled_from(labels))
            return st.fixed_dictionaries({
                "kind": st.just(kind), "labels": st.just(labels), "terms": terms, "constraint": st.none(),
                "target": gen.pick(("to_qubo", 1), ("to_quso", 1), ("to_pubo", 1), ("to_puso", 1)),
                "deg": gen.pick((2, 3), (3, 3), (4, 2), (5, 1)),
                "pairs": st.one_of(st.none(), st.lists(pair, min_size=1, max_size=4)),
                "lam": lam_strategy(),
                "sample_seed": st.integers(0, 2 ** 31 - 1),
                "rows": st.just([0]),
                "remap": gen.pick((False, 5), ("set_mapping", 1), ("set_reverse_mapping", 1), ("edit", 1),
                                  ("other_export", 1), ("copy_edit", 1)),
                "pre": st.tuples(gen.pick(("to_qubo", 1), ("to_quso", 1), ("to_pubo", 1), ("to_puso", 1)),
                                 gen.pick((2, 2), (3, 2), (4, 1))).map(list),
                "edit": st.tuples(st.integers(0, 7), st.sampled_from([1, -1, 0.5, -2])).map(list),
                "ctype": gen.CTYPE,
                "dup": st.one_of(st.none(), st.none(), st.tuples(st.integers(0, 7), st.booleans(), st.sampled_from([1, -2, 0.5, 3])).map(list)),
            })
        return st.sampled_from(BIG_POOLS).flatmap(
            lambda p: st.integers(4, 12).map(lambda n: p[:n])).flatmap(for_labels)
    return st.sampled_from(["PUBO", "PUSO", "PCBO", "PCSO"]).flatmap(for_kind)


def eval_many(terms, order, X):
    pos = {l: i for i, l in enumerate(order)}
    out = np.zeros(X.shape[0])
    for k, v in terms.items():
        t = np.full(X.shape[0], float(v))
        for l in k:
            t = t * X[:, pos[l]]
        out += t
    return out


def run_cert(spec, rec):
    import qubovert as qv
    import qubovert._pubo as pp
    with warnings.catch_warnings():
        warnings.simplefilter("ignore")
        _run_cert(qv, pp, spec, rec)


def _run_cert(qv, pp, spec, rec):
    kind = spec["kind"]
    spin_src = gen.is_spin(kind)
    M = lib(build_model, qv, spec, what="build")
    M, remapped = maybe_remap(M, spec)
    snap = gen.snapshot(M)
    mcanon = ref.canon(dict(M), spin_src)
    bform = boolean_form(mcanon, spin_src)
    t = spec["target"]
    deg_req = 2 if t in ("to_qubo", "to_quso") else spec["deg"]
    lam, ge_class = make_lam(spec["lam"], bform, deg_req)
    if hasattr(pp, "_VERIF_LAST_CERTIFICATE"):
        pp._VERIF_LAST_CERTIFICATE = None
    D, deg = call_target(M, spec, lam)
    n, anc = check_common(qv, M, D, spec, deg, snap)
    spin_dst = t in ("to_quso", "to_puso")
    cert = getattr(pp, "_VERIF_LAST_CERTIFICATE", None)
    classes = [kind, t, "lam=" + spec["lam"][0], "n=%d" % n, "anc=%d" % min(len(anc), 12)]
    mp = M.mapping
    need_reduction = any(len(k) > deg for k in bform)
    if spin_src and t == "to_puso" and not any(len(k) > deg for k in mcanon):
        need_reduction = False     # PUSO.to_puso short-cuts when its own degree suffices
    if cert is None:
        if need_reduction:
            rec.add("certificate_absent")
        rec.case(spec, False, classes + ["no_certificate"])
        return
    if cert["n"] != n:
        raise Violation("certificate/n", "certificate n=%r, model n=%r" % (cert["n"], n))
    # source identity: the certificate's terms are the boolean form of M under the mapping
    src = {}
    for term in cert["terms"]:
        k = frozenset(term["key"])
        if len(k) != len(term["key"]):
            raise Violation("certificate/key_repeats", repr(term["key"]))
        src[k] = src.get(k, 0) + term["v"]
    src = {k: v for k, v in src.items() if v != 0}
    want_src = {frozenset(mp[l] for l in k): v for k, v in bform.items()}
    if src != want_src:
        raise Violation("certificate/source_differs", "certificate terms %r != boolean form %r" % (src, want_src))
    pair_to_z, z_to_pair = {}, {}
    expected = {}

    def add(k, v):
        k = frozenset(k)
        nv = expected.get(k, 0) + v
        if nv == 0:
            expected.pop(k, None)
        else:
            expected[k] = nv
    for term in cert["terms"]:
        cur = set(term["key"])
        v = term["v"]
        if len(term["subs"]) != max(0, len(cur) - deg):
            raise Violation("certificate/wrong_number_of_substitutions",
                            "key %r deg %d: %d substitutions" % (term["key"], deg, len(term["subs"])))
        for (x, y, z, lm) in term["subs"]:
            if x == y or x not in cur or y not in cur:
                raise Violation("reduction/pair_not_in_key", "substituting (%r,%r)->%r in %r" % (x, y, z, sorted(cur)))
            p = frozenset((x, y))
            if z < n:
                raise Violation("reduction/ancilla_label_collides_with_variable", "z=%r < n=%r" % (z, n))
            if pair_to_z.setdefault(p, z) != z or z_to_pair.setdefault(z, p) != p:
                raise Violation("reduction/ancilla_not_unique_per_pair", "pair %r -> %r but %r / %r" % (sorted(p), z, pair_to_z, z_to_pair))
            if z in cur:
                raise Violation("reduction/ancilla_already_in_key", "z=%r in %r" % (z, sorted(cur)))
            if ge_class and not lm >= abs(v):
                raise Violation("reduction/penalty_below_coefficient", "lam=%r < |v|=%r" % (lm, abs(v)))
            cur -= {x, y}
            cur.add(z)
            add((z,), 3 * lm)
            add((x, y), lm)
            add((x, z), -2 * lm)
            add((y, z), -2 * lm)
        if sorted(cur) != list(term["final"]) or len(cur) > deg:
            raise Violation("certificate/final_key", "after substitutions %r, recorded %r, deg %d" % (sorted(cur), term["final"], deg))
        add(tuple(cur), v)
    got = ref.canon(dict(D), spin_dst)
    want = ref.bool_to_spin_canon(expected) if spin_dst else expected
    if got != want:
        diff = {tuple(sorted(k)): (got.get(k), want.get(k)) for k in set(got) | set(want) if got.get(k) != want.get(k)}
        raise Violation("identity/%s" % t, "D differs from the polynomial implied by the certificate at %r" % (dict(list(diff.items())[:6]),))
    # sampled assignments (deterministic in the spec)
    a = len(z_to_pair)
    rng = np.random.RandomState(spec["sample_seed"])
    zs = sorted(z_to_pair)
    order = list(range(n)) + zs
    src_terms = {tuple(k): v for k, v in want_src.items()}
    Xb = rng.randint(0, 2, size=(300, n + a)).astype(float)
    Db = eval_many(ref.canon_to_terms(expected), order, Xb)
    Mb = eval_many(src_terms, list(range(n)), Xb[:, :n])
    if ge_class and (Db < Mb).any():
        i = int(np.nonzero(Db < Mb)[0][0])
        raise Violation("undercut_sampled/%s" % t, "s=%r: D=%r < M=%r" % (Xb[i].tolist(), Db[i], Mb[i]))
    # consistent extension: z := x*y in dependency order
    Xc = Xb.copy()
    pos = {l: i for i, l in enumerate(order)}
    for _ in range(a):
        for z in zs:
            x, y = tuple(z_to_pair[z])
            Xc[:, pos[z]] = Xc[:, pos[x]] * Xc[:, pos[y]]
    Dc = eval_many(ref.canon_to_terms(expected), order, Xc)
    if not np.array_equal(Dc, Mb):
        i = int(np.nonzero(Dc != Mb)[0][0])
        raise Violation("consistent_extension_not_exact/%s" % t, "x=%r: D=%r M=%r" % (Xc[i].tolist(), Dc[i], Mb[i]))
    rec.add("certificates_validated")
    rec.case(spec, a >= 1, classes + (["reused_ancilla"] if any(
        sum(1 for term in cert["terms"] for s in term["subs"] if s[2] == z) >= 2 for z in zs) else []) +
        (["nested_ancilla"] if any(any(q >= n for q in z_to_pair[z]) for z in zs) else []))


def subchecks(tier):
    return [
        Sub("enum", enum_strategy(), run_enum, quick=8000, thorough=160000),
        Sub("cert", cert_strategy(), run_cert, quick=4000, thorough=60000),
    ]
