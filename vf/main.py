"""Entry point: python -m vf.main <ID> [--tier T] [--replay FILE] [--collect] [--shards N]."""
import argparse
import importlib
import os
import sys
import traceback


def main(argv=None):
    ap = argparse.ArgumentParser()
    ap.add_argument("prop")
    ap.add_argument("--tier", default=os.environ.get("VERIF_TIER", "quick"),
                    choices=["quick", "thorough"])
    ap.add_argument("--replay")
    ap.add_argument("--collect", action="store_true",
                    help="development: bucket violations by kind instead of stopping")
    ap.add_argument("--shards", type=int, default=None)
    a = ap.parse_args(argv)
    try:
        seed = int(os.environ.get("VERIF_SEED", "1") or "1")
    except ValueError:
        seed = 1
    prop = a.prop.upper()
    try:
        from . import build, common
        variant_tag = "%s-plain-%d" % (prop, os.getpid())
        path = build.build("plain", tag=variant_tag)
        import atexit
        import shutil
        atexit.register(shutil.rmtree, path, True)
        build.activate(path)
        os.environ["VERIF_OVERLAY"] = path
        modname = "vf.%s" % prop.lower()
        mod = importlib.import_module(modname)
        if a.replay:
            if hasattr(mod, "prepare"):
                mod.prepare(a.tier)
            v = common.replay_file(mod, a.replay)
            if v is not None:
                print("VIOLATION property=%s replay=%s" % (prop, a.replay))
                print("  %s" % v)
                return 1
            print("OK replay property=%s %s" % (prop, a.replay))
            return 0
        return common.run_property(modname, a.tier, seed, a.shards, a.collect)
    except SystemExit:
        raise
    except BaseException as e:  # noqa
        sys.stderr.write("HARNESS ERROR: %s\n" % "".join(
            traceback.format_exception(type(e), e, e.__traceback__))[-6000:])
        return 2


if __name__ == "__main__":
    sys.exit(main())
