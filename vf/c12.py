"""C12 — annealer dynamics are reproducible Metropolis sweeps.

Three sub-checks against the plain build compiled from the working tree:
  repro : two identical calls with a fixed non-negative integer seed agree;
  xproc : the same calls repeated in a fresh interpreter with another PYTHONHASHSEED agree with this process;
  zerot : schedule of zeros — no result has a larger value than the supplied
          initial state; for tie-free integer-labelled Matrix models visited in
          order the final state equals the reference sweep "flip iff dE < 0";
  dist  : positive temperatures — the empirical distribution of final states
          over 2*10^5 anneals from one initial state equals the exact k-sweep
          distribution of single-spin Metropolis kernels (Pearson chi-square,
          reject at p < 1e-9, confirmed on 3 further seeds).
"""
import warnings

import numpy as np
from hypothesis import strategies as st

from . import anneal_gen as ag
from . import gen, ref
from .common import Sub, Violation, forked, lib

ID = "C12"
CGF = False   # statistical / repeat-call oracles on the C kernels; python byte-code coverage of the library adds no guidance
RULE = ("repro: generated annealer calls (all functions / model kinds / schedules) with an integer seed, called twice. "
        "zerot: generated models with full initial state and explicit schedule [0]*k (k=1..4), both visiting orders, all four "
        "functions; plus tie-free Matrix instances (distinct power-of-two spin couplings, every index carries a term) whose final "
        "state must equal the reference in-order sweep. dist: tiny models (N<=4 spins, degree<=3), initial state, explicit "
        "schedule of 1..4 temperatures (positive; zero-temperature sweeps are mixed in on instances without dE == 0 ties: quench and re-heating), both visiting orders (in-order only for Matrix kinds, where the order is pinned), "
        "2*10^5 final states from one seeded call compared with the exact Metropolis k-sweep distribution by pooled chi-square. "
        "Non-trivial = >=2 coupled spins and (repro: num_anneals>=2; zerot: some flip happens; dist: >=2 sweeps or random order). "
        "Distinct = distinct spec hash.")
ASSUMPTIONS = [
    "distributional equality is tested statistically: alpha = 1e-9 per case, confirmed on 3 further derived seeds; power ~2% total variation at 2*10^5 samples",
    "ties (dE == 0) at T=0 are excluded from the exact-sweep oracle: the statement says 'negative' while Metropolis accepts dE=0; the property does not pin the tie rule",
    "in-order distribution only for Matrix kinds (visiting order = label order); for labelled/dict inputs the integer order is an internal artefact, so only random visiting is compared",
    "all coefficients dyadic, so reference energies are exact; chi-square tail via mpmath.gammainc",
]

N_SAMPLES = 200000
ALPHA = 1e-9


# ---------------------------------------------------------------------------
# repro

def run_repro(spec, rec):
    import qubovert as qv
    f, model, kwargs, expected, ref_terms, spin, init = ag.prepare(qv, spec)
    with warnings.catch_warnings():
        warnings.simplefilter("ignore")
        big_seed = kwargs.get("seed") is not None and kwargs["seed"] >= 2 ** 31
        if big_seed:
            # a non-negative integer beyond the C int range: either it is refused (the unchanged library raises
            # OverflowError) or it is a seed like any other - then two calls one clock second apart must agree as well
            try:
                r1 = lib(f, model, what=spec["func"], expect=(OverflowError,), **kwargs)
            except OverflowError:
                rec.add("seed_beyond_int_range_refused")
                rec.case(spec, False, ["seed>=2^31", "refused"])
                return
            import time
            if len(r1):
                time.sleep(1.1)
            r2 = lib(f, model, what=spec["func"], **kwargs)
            a = [(sorted(r.state.items(), key=repr), r.value, r.spin) for r in r1]
            b = [(sorted(r.state.items(), key=repr), r.value, r.spin) for r in r2]
            if a != b:
                raise Violation("not_reproducible/seed_beyond_int_range",
                                "seed=%r is accepted but two identical calls 1.1 s apart differ" % (spec["seed"],))
            rec.case(spec, False, ["seed>=2^31", "accepted"])
            return
        explicit = not isinstance(kwargs.get("schedule"), str)
        if explicit:
            # first call: the explicit schedule as a plain list of floats; second call: the same temperatures in the
            # drawn form (ints, tuple, numpy array, generator, Fractions) - still the identical call
            temps = list(spec["schedule"][1])
            kwargs = dict(kwargs, schedule=ag.schedule_in_form(temps, "list"))
        r1 = lib(f, model, what=spec["func"], **kwargs)
        if explicit:
            kwargs = dict(kwargs, schedule=ag.schedule_in_form(temps, spec.get("sched_form")))
        # the second call is identical; every third case hands the *same integer* over as a numpy integer
        # (np.int64(s) == s: still the same fixed non-negative integer seed)
        if kwargs.get("seed") is not None and spec["seed"] % 3 == 0:
            kwargs = dict(kwargs, seed=(np.int64 if spec["seed"] % 2 else np.int32)(kwargs["seed"]))
        r2 = lib(f, model, what=spec["func"], **kwargs)
    a = [(sorted(r.state.items(), key=repr), r.value, r.spin) for r in r1]
    b = [(sorted(r.state.items(), key=repr), r.value, r.spin) for r in r2]
    if a != b:
        i = next((j for j, (x, y) in enumerate(zip(a, b)) if x != y), None)
        raise Violation("not_reproducible", "seed=%r call differs at result %r: %r vs %r" % (
            spec["seed"], i, a[i] if i is not None else len(a), b[i] if i is not None else len(b)))
    coupled = any(len(set(k)) >= 2 for k in ref_terms)
    rec.case(spec, coupled and spec["num_anneals"] >= 2 and len(expected) >= 2, ag.classify(spec, expected, ref_terms))


def repro_strategy():
    small = st.integers(0, 2 ** 31 - 1)
    return ag.call_spec(seeds=st.one_of(st.just(0), small, small, small, small, small, small, small, small, small, small,
                                        st.sampled_from([2 ** 31, 2 ** 31 + 5, 2 ** 32 + 1, 2 ** 63 - 1])),
                        num_anneals=gen.pick((2, 3), (1, 2), (5, 2), (7, 1)), stale=False)


# ---------------------------------------------------------------------------
# repro across interpreter runs: "identical calls" includes the same script run twice - that is what a seed is for.
# The child runs with another PYTHONHASHSEED (python randomises string hashes from run to run by default), so
# anything that reaches the kernels in set / hash order shows up as a difference.

def run_xproc(spec, rec):
    import json
    import os
    import subprocess
    import sys
    import qubovert as qv
    from .c12_child import canonical
    from .common import ROOT, jdumps
    calls = list(spec["calls"])
    mine = []
    with warnings.catch_warnings():
        warnings.simplefilter("ignore")
        for c in calls:
            f, model, kwargs, expected, ref_terms, spin, init = ag.prepare(qv, c)
            mine.append(canonical(lib(f, model, what=c["func"], **kwargs)))
    env = dict(os.environ, PYTHONHASHSEED=str(spec["hashseed"]), VERIF_OVERLAY=os.environ.get("VERIF_OVERLAY", ""))
    p = subprocess.run([sys.executable, "-W", "ignore", "-m", "vf.c12_child"], input=jdumps(calls), cwd=ROOT, env=env,
                       capture_output=True, text=True, timeout=600)
    if p.returncode != 0:
        raise RuntimeError("xproc child failed (harness): %s" % p.stderr[-2000:])
    theirs = json.loads(p.stdout)
    for i, (a, b) in enumerate(zip(mine, theirs)):
        if isinstance(b, dict):
            raise Violation("xproc_child_exception", "call %r raised in the child only: %r" % (calls[i], b))
        if a != b:
            j = next((k for k, (x, y) in enumerate(zip(a, b)) if x != y), None)
            raise Violation("not_reproducible_across_interpreter_runs",
                            "the same seeded call gives different results under PYTHONHASHSEED=%s and =%s: call=%r "
                            "result #%r: %r vs %r" % (os.environ.get("PYTHONHASHSEED"), spec["hashseed"], calls[i], j,
                                                      a[j] if j is not None else len(a), b[j] if j is not None else len(b)))
    strs = any(isinstance(l, (str, tuple)) for c in calls for l in c["labels"])
    rec.case(spec, strs and len(calls) >= 2, ["xproc", "string_or_tuple_labels" if strs else "int_labels"])
    rec.add("xproc_calls", len(calls))


def xproc_strategy():
    call = ag.call_spec(seeds=st.integers(0, 2 ** 31 - 1), num_anneals=gen.pick((2, 2), (3, 1)), stale=False)
    return st.fixed_dictionaries({"hashseed": st.integers(1, 4000), "calls": st.lists(call, min_size=4, max_size=10)})


# ---------------------------------------------------------------------------
# zero temperature

def zerot_strategy():
    base = ag.call_spec(coefs=[gen.MIXED_COEFS, gen.MIXED_COEFS, gen.MIXED_COEFS, gen.TINY_COEFS, gen.HUGE_COEFS],
                        stale=False,
                        num_anneals=gen.pick((1, 2), (2, 2), (3, 1)),
                        seeds=st.one_of(st.none(), st.integers(0, 2 ** 31 - 1)))

    def fix(spec, k, bits):
        spec = dict(spec)
        spec["schedule"] = ("explicit", [0.0] * k)
        spec["temperature_range"] = None
        spec["init"] = bits
        spec["tiefree"] = False
        return spec
    general = st.builds(fix, base, st.integers(1, 4), st.lists(st.integers(0, 1), min_size=1, max_size=8))

    # tie-free Matrix instances, built in spin form with distinct powers of two
    def tiefree(func, n, keys, signs, k, bits, na, seed, mag=0):
        spin = ag.FUNCS[func][0]
        quad = func in ag.QUAD_FUNCS
        labels = list(range(n))
        ks = []
        for key in keys:
            key = tuple(sorted(set(i % n for i in key)))
            if quad:
                key = key[:2]
            if key and key not in ks:
                ks.append(key)
        for i in range(n):           # every index carries a term
            if not any(i in key for key in ks):
                ks.append((i,))
        # mag: the whole instance scaled by a power of two (exact; tiny energy differences stay energy differences)
        sterms = {key: (1 if signs[j % len(signs)] else -1) * (2 ** j) * (2.0 ** mag if mag else 1) for j, key in enumerate(ks)}
        if spin:
            terms = [[k_, v] for k_, v in sterms.items()]
        else:
            bt = ref.spin_to_bool_canon(ref.canon(sterms, True))
            terms = [[tuple(sorted(k_)), v] for k_, v in bt.items()]
        kind = {"anneal_qubo": "QUBOMatrix", "anneal_quso": "QUSOMatrix",
                "anneal_pubo": "PUBOMatrix", "anneal_puso": "PUSOMatrix"}[func]
        return {"func": func, "kind": kind, "labels": labels, "terms": terms, "stale": [],
                "num_anneals": na, "anneal_duration": 1, "schedule": ("explicit", [0.0] * k),
                "temperature_range": None, "init": bits, "in_order": True, "seed": seed, "tiefree": True}
    tf = st.builds(tiefree, st.sampled_from(list(ag.FUNCS)), st.integers(2, 6),
                   st.lists(st.lists(st.integers(0, 5), min_size=1, max_size=4), min_size=1, max_size=7),
                   st.lists(st.booleans(), min_size=1, max_size=7), st.integers(1, 4),
                   st.lists(st.integers(0, 1), min_size=1, max_size=8), st.integers(1, 2),
                   st.one_of(st.none(), st.integers(0, 2 ** 31 - 1)), st.sampled_from([0, 0, 0, -50, 40]))
    return st.one_of(general, tf, tf)


def run_zerot(spec, rec):
    import qubovert as qv
    res, (f, model, kwargs, expected, ref_terms, spin, init) = ag.run_call(qv, spec)
    cterms = ref.canon_to_terms(ref.canon(ref_terms, spin))
    e0 = ref.ref_value(cterms, init) if init is not None else None
    flipped = False
    for r in res:
        if init is not None and set(r.state) == set(init):
            if r.value > e0:
                raise Violation("energy_increased_at_T0", "initial value %r, result value %r, init=%r state=%r model=%r" %
                                (e0, r.value, init, r.state, ref_terms))
            flipped = flipped or r.state != init
    if spec.get("tiefree") and init is not None and res:
        n = len(expected)
        state = dict(init)

        def flip(v):
            return -v if spin else 1 - v
        for _ in range(len(spec["schedule"][1])):
            for i in range(n):
                cur = ref.ref_value(cterms, state)
                state[i] = flip(state[i])
                new = ref.ref_value(cterms, state)
                if new - cur == 0:
                    raise AssertionError("instance not tie-free")   # harness bug by construction
                if not new - cur < 0:
                    state[i] = flip(state[i])
        for r in res:
            if r.state != state:
                raise Violation("zero_T_sweep_differs", "in-order T=0 sweeps from %r: library %r, reference %r; model=%r sweeps=%d" %
                                (init, r.state, state, ref_terms, len(spec["schedule"][1])))
    coupled = any(len(set(k)) >= 2 for k in ref_terms)
    cl = ag.classify(spec, expected, ref_terms) + (["tiefree"] if spec.get("tiefree") else ["general"])
    rec.case(spec, coupled and flipped and len(expected) >= 2, cl)


# ---------------------------------------------------------------------------
# distribution at positive temperature

def dist_strategy():
    def mk(func, kind, n, keys, coefs, temps, bits, in_order, seed):
        spin = ag.FUNCS[func][0]
        quad = func in ag.QUAD_FUNCS or gen.is_quad(kind)
        pool = {"dict": ["a", "b", 0, ("x", 1)], "lab": ["p", 3, "q", ("x", 1)]}
        if gen.is_matrix(kind):
            labels = list(range(n))
        elif kind == "dict":
            labels = pool["dict"][:n]
        else:
            labels = pool["lab"][:n]
        terms, seen = [], set()
        for j, key in enumerate(keys):
            key = tuple(dict.fromkeys(labels[i % n] for i in key))
            if quad:
                key = key[:2]
            fk = frozenset(key)
            if not key or fk in seen:
                continue
            seen.add(fk)
            terms.append([key, coefs[j % len(coefs)]])
        return {"func": func, "kind": kind, "labels": labels, "terms": terms, "stale": [],
                "num_anneals": N_SAMPLES, "anneal_duration": 1, "schedule": ("explicit", list(temps)),
                "temperature_range": None, "init": bits,
                # in-order visiting is compared only where the order is pinned: Matrix kinds that stay
                # Matrix on the way to the kernel (anneal_pubo turns a QUBOMatrix into a labelled model)
                "in_order": bool(in_order and gen.is_matrix(kind)
                                 and not (func == "anneal_pubo" and kind == "QUBOMatrix")), "seed": seed,
                # temperatures 1, 2, 4, 0 are integral: handed over as python ints, a tuple or a numpy array in some cases
                "sched_form": ("list", "ints", "list", "tuple", "ints", "ndarray")[seed % 6]}
    pairs = [(f, k) for f in ag.FUNCS for k in ag.FUNCS[f][1]]
    pairs = pairs + [p for p in pairs if gen.is_matrix(p[1])] * 2     # in-order kernels need Matrix kinds
    return st.sampled_from(pairs).flatmap(lambda fk: st.builds(
        mk, st.just(fk[0]), st.just(fk[1]), st.integers(2, 4),
        st.lists(st.lists(st.integers(0, 3), min_size=1, max_size=3), min_size=1, max_size=5),
        st.lists(st.sampled_from([-2, -1, -0.5, 0.5, 1, 2, 1.5, -1.5]), min_size=1, max_size=5),
        st.one_of(
            st.lists(gen.pick((1.0, 2), (0.5, 2), (2.0, 2), (4.0, 1), (0.0, 3)), min_size=1, max_size=4),
            st.lists(gen.pick((1.0, 2), (0.5, 2), (2.0, 2), (4.0, 1), (0.0, 3)), min_size=1, max_size=4),
            # quench to a local minimum, one more zero-temperature sweep in which nothing can flip, then re-heating
            st.lists(st.sampled_from([1.0, 0.5, 2.0]), min_size=1, max_size=2).map(lambda hot: [0.0, 0.0] + hot)),
        st.lists(st.integers(0, 1), min_size=1, max_size=4), st.booleans(),
        st.integers(0, 2 ** 31 - 1)))


def exact_distribution(E, n, temps, in_order, start):
    S = 1 << n
    idx = np.arange(S)
    p = np.zeros(S)
    p[start] = 1.0

    def kernel(i, T):
        partner = idx ^ (1 << i)
        dE = E[partner] - E[idx]
        if T == 0:
            a = np.where(dE < 0, 1.0, 0.0)      # only used on tie-free instances (no dE == 0)
        else:
            a = np.where(dE <= 0, 1.0, np.exp(-np.maximum(dE, 0) / T))
        K = np.zeros((S, S))
        K[idx, partner] += a
        K[idx, idx] += 1.0 - a
        return K
    for T in temps:
        Ks = [kernel(i, T) for i in range(n)]
        if in_order:
            for K in Ks:
                p = p @ K
        else:
            R = sum(Ks) / n
            for _ in range(n):
                p = p @ R
    return p


def chi_square_p(counts, probs, nsamp):
    import mpmath
    exp = probs * nsamp
    zero_hit = [(i, int(counts[i])) for i in range(len(probs)) if probs[i] == 0 and counts[i] > 0]
    if zero_hit:
        return 0.0, float("inf"), 0, zero_hit
    big = exp >= 5
    o = list(counts[big])
    e = list(exp[big])
    if (~big).any() and exp[~big].sum() > 0:
        o.append(counts[~big].sum())
        e.append(exp[~big].sum())
    dof = len(o) - 1
    if dof <= 0:
        return 1.0, 0.0, 0, []
    chi2 = float(sum((oi - ei) ** 2 / ei for oi, ei in zip(o, e)))
    pv = float(mpmath.gammainc(dof / 2.0, chi2 / 2.0, mpmath.inf, regularized=True))
    return pv, chi2, dof, []


def _sample(qv, spec, seed):
    s = dict(spec)
    s["seed"] = seed
    f, model, kwargs, expected, ref_terms, spin, init = ag.prepare(qv, s)
    with warnings.catch_warnings():
        warnings.simplefilter("ignore")
        res = lib(f, model, what=spec["func"], **kwargs)
    return res, model, expected, ref_terms, spin, init


def run_dist(spec, rec):
    import qubovert as qv
    res, model, expected, ref_terms, spin, init = _sample(qv, spec, spec["seed"])
    kind = spec["kind"]
    alt = ag.alt_expected_for(spec, model, ref_terms, spin)
    if alt is not None and len(res) and set(res[0].state) == alt:
        expected = alt      # anneal_pubo(QUBOMatrix): states over the variables present (see anneal_gen)
    if gen.is_matrix(kind):
        order = sorted(expected)
    else:
        order = sorted(expected, key=repr)      # any fixed order: only random visiting is compared
    n = len(order)
    if n == 0 or n > 4:
        rec.add("skipped_size")
        return
    cterms = ref.canon_to_terms(ref.canon(ref_terms, spin))
    E = ref.table(cterms, order, spin)
    pos = {l: i for i, l in enumerate(order)}

    def index(state):
        r = 0
        for l, v in state.items():
            if l not in pos:
                continue
            bit = (1 - v) // 2 if spin else v
            r |= bit << pos[l]
        return r
    start = index(init)
    temps = list(spec["schedule"][1])
    if any(t == 0 for t in temps):
        # zero-temperature sweeps inside the schedule (quench, re-heating) have an exact kernel only
        # when no single-spin flip has dE == 0 (the statement does not pin the tie rule)
        S = np.arange(1 << n)
        tiefree = all((E[S ^ (1 << i)] != E[S]).all() for i in range(n))
        if not tiefree:
            rec.add("dist_zero_temperature_dropped_ties")
            spec = dict(spec)
            temps = [t if t > 0 else 1.0 for t in temps]
            spec["schedule"] = ("explicit", temps)
            res, model, expected, ref_terms, spin, init = _sample(qv, spec, spec["seed"])
    probs = exact_distribution(E, n, temps, spec["in_order"], start)

    def counts_of(results):
        c = np.zeros(1 << n)
        for r in results:
            if set(r.state) != set(order):
                raise Violation("state_keys", "state %r, variables %r" % (r.state, order))
            c[index(r.state)] += 1
        return c
    pv, chi2, dof, zero_hit = chi_square_p(counts_of(res), probs, len(res))
    rec.add("dist_cases")
    if pv < ALPHA:
        # confirm on three further derived seeds (family-wise false alarm ~ cases * 1e-9)
        confirms = []
        for j in range(1, 4):
            res2, *_ = _sample(qv, spec, (spec["seed"] * 7919 + j * 104729) % (2 ** 31 - 1))
            pv2, chi22, _, zh2 = chi_square_p(counts_of(res2), probs, len(res2))
            confirms.append(pv2)
        if all(p < 1e-4 for p in confirms):
            detail = ("final-state distribution differs from the exact Metropolis %d-sweep distribution: chi2=%.1f dof=%d p=%.3g "
                      "(confirm p=%r) zero-probability states hit=%r; order=%r in_order=%r temps=%r init=%r model=%r\n expected=%r\n observed=%r" %
                      (len(temps), chi2, dof, pv, confirms, zero_hit, order, spec["in_order"], temps, init, ref_terms,
                       [round(x, 5) for x in probs], [round(x / len(res), 5) for x in counts_of(res)]))
            raise Violation("distribution_differs/" + ("in_order" if spec["in_order"] else "random"), detail)
        rec.add("dist_unconfirmed_low_p")
    coupled = any(len(set(k)) >= 2 for k in ref_terms)
    cl = [spec["func"], "kind=" + kind, "order=" + ("in" if spec["in_order"] else "random"),
          "sweeps=%d" % len(temps), "n=%d" % n]
    if any(t == 0 for t in temps):
        cl.append("mixed_zero_and_positive" if any(t > 0 for t in temps) else "all_zero_temperature")
    rec.case(spec, coupled and (len(temps) >= 2 or not spec["in_order"]), cl)


def subchecks(tier):
    return [
        Sub("repro", repro_strategy(), run_repro, quick=3000, thorough=60000),
        Sub("zerot", zerot_strategy(), run_zerot, quick=4000, thorough=100000),
        # each dist case runs in its own forked child: the C wrapper leaks the result lists of every call
        # (Py_BuildValue "OO" without releasing them; ~25 MB per 2*10^5 anneals), see DESIGN section 8
        Sub("xproc", xproc_strategy(), run_xproc, quick=60, thorough=1500, shrink_quick=False),
        Sub("dist", dist_strategy(), forked(run_dist), quick=144, thorough=3600, shrink_quick=False),
    ]
