"""C09 — brute-force solvers return the exact minimum and exactly the minimisers.

The four ``solve_*_bruteforce(model, all_solutions, valid)`` functions and the
``solve_bruteforce(all_solutions)`` methods are run on generated models (raw
dict or any of the ten model types, refreshed) and compared with an independent
enumeration (``vf/ref.py`` truth table over exactly the labels occurring in the
stored polynomial).  ``valid`` is membership of the assignment in a generated
subset of the 2^n assignments; PCBO/PCSO with recorded constraints are solved
through the method, whose validity predicate is the model's own
``is_solution_valid`` — the reference evaluates the *generated* constraint
polynomials itself.
"""
import warnings

import numpy as np
from hypothesis import strategies as st

from . import gen, ref
from .common import Sub, Violation, lib

ID = "C09"
RULE = ("Hypothesis-generated (model, solver, all_solutions, valid) cases: model as raw dict (keys in arbitrary label order) or "
        "one of the ten model types built by += and refreshed, n <= 6 labels (+ ancillas of 0-2 generated PCBO/PCSO constraints, "
        "total <= 10), 0-6 terms of small integers (ties) / integers / dyadics, with/without offset, constant-only, empty; solver = "
        "one of the four functions (matching boolean/spin kind, degree <= 2 for qubo/quso) or the solve_bruteforce method; valid = "
        "all / none / single assignment / random 64-bit subset mask / sparse mask / everything except the unconstrained minimisers; "
        "for the method on PCBO/PCSO the model's own constraints. Non-trivial = at least two minimisers among the valid assignments, "
        "or the valid set excludes the unconstrained minimum (incl. no valid assignment). Distinct = distinct spec hash.")
ASSUMPTIONS = [
    "whenever the library calls the valid predicate the model object reads exactly as the caller passed it in (a predicate "
    "may evaluate the model it was written for); a difference is reported as model_differs_inside_valid_callback",
    "M.solve_bruteforce() of a user subclass (non-PC kinds) honours the subclass's is_solution_valid, as the method docstrings define it",
    "the model's variables are the labels occurring in its stored polynomial (models are refreshed, so this equals .variables; "
    "a case where it does not is counted as not_refreshed and skipped)",
    "coefficients are integers / dyadic rationals and penalties small, so objective values are compared with ==",
    "for a model without variables the statement's two clauses ('constant yields the constant' / 'no valid assignment -> None') "
    "conflict when valid rejects the empty assignment; such cases are counted, not judged",
    "when no assignment is valid only 'objective is None' is asserted (the method returns no objective, so nothing is asserted there)",
    "PCBO/PCSO method: constraints whose labels are not all variables of the model (the model's is_solution_valid cannot evaluate "
    "them on an assignment over exactly the model's variables) are counted as constraint_label_not_in_model and skipped",
    "cases with more than 10 variables after ancillas are counted as too_big and skipped",
]

RELS = ["eq", "ne", "lt", "le", "gt", "ge"]
FUNCS = {"pubo": "solve_pubo_bruteforce", "qubo": "solve_qubo_bruteforce",
         "puso": "solve_puso_bruteforce", "quso": "solve_quso_bruteforce"}
MAX_TOTAL = 10


def _okey(l):
    # repr as the second component: the harness' own order must not need the labels to be mutually comparable
    return (str(type(l)), repr(l))


# labels of one type that cannot be ordered among themselves: fine for a plain dict handed to a solver function (nothing
# in the documented behaviour sorts them), not usable for the model classes (whose keys are sorted)
UNORDERABLE = [("q", 0), ("q", "aux"), ("r", 1), ("r", None), ("q", (1,)), ("s", 2.5)]


# ---------------------------------------------------------------------------
# generation

def _choices():
    out = []
    for kind in gen.BOOL_KINDS:
        out += [(kind, "pubo"), (kind, "qubo"), (kind, "method")]
    for kind in gen.SPIN_KINDS:
        out += [(kind, "puso"), (kind, "quso"), (kind, "method")]
    out += [("dict_bool", "pubo"), ("dict_bool", "qubo"), ("dict_spin", "puso"), ("dict_spin", "quso")] * 3
    out += [("PCBO", "method"), ("PCSO", "method")] * 3
    return out


VALID = st.one_of(
    st.just(["all", 0]),
    st.just(["all", 0]),
    st.just(["none", 0]),
    st.tuples(st.just("single"), st.integers(0, 63)).map(list),
    st.tuples(st.just("subset"), st.integers(0, 2 ** 64 - 1)).map(list),
    st.tuples(st.just("subset"), st.integers(0, 2 ** 64 - 1)).map(list),
    st.tuples(st.integers(0, 2 ** 64 - 1), st.integers(0, 2 ** 64 - 1), st.integers(0, 2 ** 64 - 1)).map(
        lambda t: ["subset", t[0] & t[1] & t[2]]),
    st.just(["exclude_min", 0]),
    st.just(["exclude_min", 0]),
)


def _terms(labels, quad, spin):
    coefs = st.one_of(gen.SMALL_INT_COEFS, gen.SMALL_INT_COEFS, gen.INT_COEFS, gen.DYADIC_COEFS)

    def poly(c, lo, offset=True):
        return gen.poly_strategy(labels, 6, 4, c, repeats=False, offset=offset, min_terms=lo, quad=quad, spin=spin)
    return st.one_of(
        poly(gen.SMALL_INT_COEFS, 2), poly(gen.SMALL_INT_COEFS, 3), poly(st.sampled_from([-1, 1]), 3),
        poly(gen.INT_COEFS, 2), poly(gen.DYADIC_COEFS, 2), poly(coefs, 1), poly(coefs, 4), poly(coefs, 0),
        poly(coefs, 2, False), poly(gen.SMALL_INT_COEFS, 4, False),
        poly(coefs, 3), poly(gen.SMALL_INT_COEFS, 5), poly(gen.TINY_COEFS, 2), poly(gen.HUGE_COEFS, 2),
        # mixed magnitudes that are still exact in binary floating point: order-1 terms next to a constant or one
        # coefficient of 2^40 (values that differ in the 13th significant digit are different values)
        poly(gen.SMALL_INT_COEFS, 2, False).map(lambda t: t + [[(), 2.0 ** 40]]),
        poly(gen.SMALL_INT_COEFS, 3, False).map(lambda t: [[t[0][0], (2.0 ** 40) * t[0][1]]] + t[1:]),
        st.one_of(
            st.tuples(st.just(()), st.one_of(gen.INT_COEFS, gen.DYADIC_COEFS)).map(lambda t: [list(t)]),   # constant only
            st.just([])),                                                                              # empty
    )


def _cons(labels, linear):
    cpoly = gen.poly_strategy(labels, 3, 1 if linear else 2, gen.SMALL_INT_COEFS, repeats=False, min_terms=1)
    con = st.tuples(st.sampled_from(RELS), cpoly, st.sampled_from([0, 0, 0.5, 1, 2]), st.booleans()).map(list)
    return st.lists(con, min_size=0, max_size=2)


def cases():
    def for_choice(ch):
        kind, solver = ch
        spin = gen.is_spin(kind)
        quad = gen.is_quad(kind) or solver in ("qubo", "quso")
        pools = [gen.label_pool(gen.is_matrix(kind), 3, 6), gen.label_pool(gen.is_matrix(kind), 1, 6)]
        if kind.startswith("dict"):
            pools = pools + pools + [st.integers(2, 6).map(lambda n: list(UNORDERABLE[:n]))]
        return st.one_of(pools).flatmap(
            lambda labels: st.fixed_dictionaries({
                "kind": st.just(kind),
                "solver": st.just(solver),
                "labels": st.just(labels),
                "terms": _terms(labels, quad, spin),
                "all": st.sampled_from([True, True, False]),
                "valid": VALID,
                "cons": _cons(labels, solver in ("qubo", "quso")) if kind in ("PCBO", "PCSO") else st.just([]),
                "name": st.sampled_from([None, None, "m", 7]),
                # used only when the model is constant / empty: terms that are added and cancelled again, so the
                # constant model still *reports* variables (the statement's "constant model" clause does not
                # depend on bookkeeping)
                "stale_keys": st.lists(gen.key_strategy(labels, 2, False, min_deg=1), min_size=0, max_size=2),
                "zero_offset": gen.pick((False, 3), (True, 1)),
                "ctype": gen.CTYPE,
                # method solver on a model without constraints: a user subclass whose is_solution_valid is the generated
                # predicate (the docstrings define M.solve_bruteforce() through self.is_solution_valid)
                "subclass": gen.pick((False, 2), (True, 1)),
            }))
    return st.sampled_from(_choices()).flatmap(for_choice)


# ---------------------------------------------------------------------------

def _row(x, order, pos, spin):
    r = 0
    for l in order:
        v = x[l]
        if spin:
            if v == 1:
                b = 0
            elif v == -1:
                b = 1
            else:
                return None
        else:
            if v == 0:
                b = 0
            elif v == 1:
                b = 1
            else:
                return None
        r |= b << pos[l]
    return r


def run_case(spec, rec):
    import qubovert as qv
    with warnings.catch_warnings():
        warnings.simplefilter("ignore")
        _run(spec, rec, qv)


def _run(spec, rec, qv):
    kind, solver, want_all = spec["kind"], spec["solver"], bool(spec["all"])
    spin = gen.is_spin(kind)
    is_dict = kind.startswith("dict")
    cons = [list(c) for c in spec["cons"]]
    classes = {kind, "solver=" + solver, "all=%s" % want_all}

    # ---- build ---------------------------------------------------------
    ctype = spec.get("ctype") or "plain"
    if ctype != "plain":
        classes.add("ctype=" + ctype)
    if is_dict:
        M = {k: gen.wrap_number(v, ctype) for k, v in gen.terms_dict(spec["terms"]).items() if v != 0}
        if spec.get("zero_offset") and () not in M:
            M[()] = 0          # an explicit zero constant is part of the caller's dict and must survive the call
            classes.add("dict_with_explicit_zero_offset")
    else:
        M = lib(gen.build, qv, kind, gen.wrap_terms(spec["terms"], ctype), what="build")
        for rel, cterms, lam, log_trick in cons:
            kw = {"lam": lam}
            if rel != "eq":
                kw["log_trick"] = bool(log_trick)
            lib(getattr(M, "add_constraint_%s_zero" % rel), gen.terms_dict(cterms), what="constraint_" + rel, **kw)
        lib(M.refresh, what="refresh")
        if spec["name"] is not None:
            M.name = spec["name"]
    terms = dict(M)
    variables = set()
    for k in terms:
        variables.update(k)
    stale_const = False
    if not is_dict and not variables and not cons and spec.get("stale_keys"):
        for k in spec["stale_keys"]:
            k = tuple(k)
            M[k] += 1
            M[k] -= 1
        if dict(M) != terms:
            raise Violation("cancellation_changed_terms", "%r -> %r" % (terms, dict(M)))
        stale_const = bool(M.variables)
        if stale_const:
            classes.add("constant_with_stale_variables")
    if not is_dict and set(M.variables) != variables and not stale_const:
        rec.add("not_refreshed")
        return
    if solver in ("qubo", "quso") and any(len(k) > 2 for k in terms):
        rec.add("degree_gt_2_for_quadratic_solver")
        return
    order = sorted(variables, key=_okey)
    n = len(order)
    if n > MAX_TOTAL:
        rec.add("too_big")
        return
    pos = {l: i for i, l in enumerate(order)}
    if cons:
        classes.add("constraints=%d" % len(cons))
        classes.update("rel=" + c[0] for c in cons)
    if any(isinstance(l, str) and l.startswith("__a") for l in order):
        classes.add("ancillas")

    # ---- reference -----------------------------------------------------
    tab = ref.table(terms, order, spin)
    rows = 1 << n
    gmin = tab.min()
    own = (solver == "method")
    # (PCBO / PCSO cannot be subclassed at all: their __init__ calls super(self.__class__, self), which recurses for
    # any subclass - an observation outside C09, see DESIGN section 8)
    user_sub = own and not cons and bool(spec.get("subclass")) and kind not in ("PCBO", "PCSO")
    if own and not user_sub:
        mode = "own" if cons else "method_unconstrained"
        valid_rows = np.ones(rows, dtype=bool)
        for rel, cterms, lam, log_trick in cons:
            P = gen.terms_dict(cterms)
            if not all(l in pos for k in P for l in k):
                rec.add("constraint_label_not_in_model")
                return
            valid_rows &= np.array([ref.REL[rel](v) for v in ref.table(P, order, spin)], dtype=bool)
    else:
        mode, arg = spec["valid"][0], spec["valid"][1]
        idx = np.arange(rows)
        if mode == "all":
            valid_rows = np.ones(rows, dtype=bool)
        elif mode == "none":
            valid_rows = np.zeros(rows, dtype=bool)
        elif mode == "single":
            valid_rows = idx == (arg % rows)
        elif mode == "subset":
            valid_rows = np.array([(arg >> (int(r) % 64)) & 1 for r in idx], dtype=bool)
        elif mode == "exclude_min":
            valid_rows = tab != gmin
        else:
            raise AssertionError(mode)
    classes.add("valid=" + mode)
    any_valid = bool(valid_rows.any())
    if any_valid:
        vmin = tab[valid_rows].min()
        argmin = [int(r) for r in np.nonzero(valid_rows & (tab == vmin))[0]]
    else:
        vmin, argmin = None, []

    state = {"bad": None, "calls": 0}

    def valid(x):
        state["calls"] += 1
        if not isinstance(x, dict) or set(x.keys()) != variables or len(x) != n:
            state["bad"] = repr(x)
            return False
        r = _row(x, order, pos, spin)
        if r is None:
            state["bad"] = repr(x)
            return False
        # a predicate may read the model it was written for (e.g. lambda x: H.value(x) > e0): whenever the library hands
        # control to the callback the model has to be what the caller passed in
        if state.get("model_seen") is None and dict(M) != terms:
            state["model_seen"] = dict(M)
        return bool(valid_rows[r])

    if user_sub:
        Sub_ = type("User" + type(M).__name__, (type(M),), {"is_solution_valid": lambda self, x: valid(x)})
        M = lib(Sub_, M, what="subclass copy constructor")
        classes.add("user_subclass")

    # ---- call ----------------------------------------------------------
    before = gen.snapshot(M)
    if own:
        sol = lib(M.solve_bruteforce, want_all, what="method/" + kind)
        obj = "n/a"
    else:
        res = lib(getattr(qv.utils, FUNCS[solver]), M, want_all, valid, what=FUNCS[solver])
        if not isinstance(res, tuple) or len(res) != 2:
            raise Violation("result_shape/" + solver, "returned %r" % (res,))
        obj, sol = res
    after = gen.snapshot(M)
    ctx = "kind=%s solver=%s all=%s valid=%r model=%r cons=%r" % (kind, solver, want_all, spec["valid"] if not own else "own",
                                                                   terms, cons)
    if after != before:
        raise Violation("model_changed/" + ("dict" if is_dict else "model"), "before=%r after=%r; %s" % (before, after, ctx))
    if state.get("model_seen") is not None:
        raise Violation("model_differs_inside_valid_callback",
                        "while valid() was being called the model read %r instead of %r; %s" % (state["model_seen"], terms, ctx))
    if state["bad"] is not None:
        raise Violation("valid_called_with_wrong_assignment", "valid got %s, variables are %r; %s" % (state["bad"], order, ctx))

    if "offset" not in classes and () in terms:
        classes.add("offset")

    # ---- no variables: constant / empty conventions ---------------------
    if n == 0:
        const = terms.get((), 0)
        classes.add("constant" if terms else "empty")
        if not any_valid:
            rec.add("constant_with_rejecting_valid_unspecified")
            rec.case(spec, False, sorted(classes))
            return
        want_sol = [{}] if want_all else {}
        if sol != want_sol or type(sol) is not type(want_sol):
            raise Violation("constant_convention/solution", "expected %r, got %r; %s" % (want_sol, sol, ctx))
        if not own and (obj is None or obj != const):
            raise Violation("constant_convention/objective", "expected %r, got %r; %s" % (const, obj, ctx))
        rec.case(spec, False, sorted(classes))
        return

    # ---- no valid assignment --------------------------------------------
    if not any_valid:
        classes.add("no_valid")
        if not own and obj is not None:
            raise Violation("objective_not_none_without_valid", "objective %r; %s" % (obj, ctx))
        if own:
            rec.add("method_no_valid_nothing_to_assert")
        rec.case(spec, True, sorted(classes))
        return

    # ---- regular case ----------------------------------------------------
    if not own:
        if obj is None or obj != vmin:
            raise Violation("objective_not_minimum/" + ("all" if want_all else "one"),
                            "objective %r, reference minimum over valid %r; %s" % (obj, vmin, ctx))

    def check_solution(s):
        if not isinstance(s, dict):
            raise Violation("solution_not_dict", "%r; %s" % (s, ctx))
        if set(s.keys()) != variables or len(s) != n:
            raise Violation("solution_keys_ne_variables", "solution %r, variables %r; %s" % (s, order, ctx))
        r = _row(s, order, pos, spin)
        if r is None:
            raise Violation("solution_value_domain", "solution %r; %s" % (s, ctx))
        if not valid_rows[r]:
            raise Violation("solution_not_valid", "solution %r is not accepted by valid; %s" % (s, ctx))
        if tab[r] != vmin:
            raise Violation("solution_not_optimal", "solution %r has value %r, minimum over valid is %r; %s" % (s, tab[r], vmin, ctx))
        return r

    if want_all:
        if not isinstance(sol, list):
            raise Violation("all_solutions_not_list", "%r; %s" % (sol, ctx))
        got = []
        for s in sol:
            if not isinstance(s, dict) or set(s.keys()) != variables:
                raise Violation("solution_keys_ne_variables", "solution %r, variables %r; %s" % (s, order, ctx))
            r = _row(s, order, pos, spin)
            if r is None:
                raise Violation("solution_value_domain", "solution %r; %s" % (s, ctx))
            got.append(r)
        extra = sorted(set(got) - set(argmin))
        missing = sorted(set(argmin) - set(got))
        if extra:
            r = extra[0]
            raise Violation("all_solutions_contains_non_minimiser",
                            "%r (value %r, valid %r) returned, minimum %r; %s" %
                            (ref.assignment(order, r, spin), tab[r], bool(valid_rows[r]), vmin, ctx))
        if missing:
            raise Violation("all_solutions_misses_minimiser",
                            "%r not returned; got %d of %d minimisers; %s" %
                            (ref.assignment(order, missing[0], spin), len(set(got)), len(argmin), ctx))
        if len(got) != len(set(got)):
            raise Violation("all_solutions_duplicate", "%d solutions, %d distinct; %s" % (len(got), len(set(got)), ctx))
        if len({frozenset(s.items()) for s in sol}) != len(argmin):
            raise Violation("all_solutions_multiset", "frozen item sets differ from the reference arg-min set; %s" % ctx)
    else:
        check_solution(sol)

    ties = len(argmin) >= 2
    excluded = bool(vmin > gmin)
    if ties:
        classes.add("ties")
    if excluded:
        classes.add("excluded_min")
    classes.add("n=%d" % n)
    rec.case(spec, ties or excluded, sorted(classes))


# ---------------------------------------------------------------------------
# Problem.solve_bruteforce (problems/_problem_parentclass.py): to_qubo -> QUBOMatrix.solve_bruteforce -> convert_solution

def problem_cases():
    np_case = st.fixed_dictionaries({
        "cls": st.just("NumberPartitioning"),
        "S": st.lists(st.integers(1, 6), min_size=2, max_size=6),
        "all": st.booleans(),
    })

    def vc(labels):
        edge = st.lists(st.sampled_from(labels), min_size=2, max_size=2, unique_by=_okey).map(tuple)
        return st.fixed_dictionaries({
            "cls": st.just("VertexCover"),
            "edges": st.lists(edge, min_size=1, max_size=7),
            "all": st.booleans(),
        })
    return st.one_of(np_case, gen.label_pool(False, 2, 5).flatmap(vc))


def _norm(o):
    if isinstance(o, (list, tuple)):
        return ("seq",) + tuple(_norm(x) for x in o)
    if isinstance(o, (set, frozenset)):
        return ("set",) + tuple(sorted((_norm(x) for x in o), key=repr))
    if isinstance(o, dict):
        return ("dict",) + tuple(sorted(((_norm(k), _norm(v)) for k, v in o.items()), key=repr))
    return o


def _norm_solution(cls, o):
    """Decoded solution in comparable form.  A partition is a pair of *multisets* of numbers: the order in which the
    numbers of one side are listed follows the iteration order of the assignment handed to convert_solution and is
    not part of the answer."""
    if cls == "NumberPartitioning" and isinstance(o, (list, tuple)) and len(o) == 2:
        return ("partition",) + tuple(tuple(sorted(part)) for part in o)
    return _norm(o)


def run_problem(spec, rec):
    import collections
    import qubovert as qv
    with warnings.catch_warnings():
        warnings.simplefilter("ignore")
        if spec["cls"] == "NumberPartitioning":
            arg = list(spec["S"])
            prob = lib(qv.problems.NumberPartitioning, arg, what="NumberPartitioning")
        else:
            arg = {tuple(e) for e in spec["edges"]}
            prob = lib(qv.problems.VertexCover, arg, what="VertexCover")
        arg_before = _norm(arg)
        Q = lib(prob.to_qubo, what="to_qubo")
        n = prob.num_binary_variables
        terms = dict(Q)
        used = {l for k in terms for l in k}
        if used != set(range(n)):
            rec.add("problem_with_free_variable_skipped")
            return
        order = list(range(n))
        tab = ref.table(terms, order, False)
        vmin = tab.min()
        argmin = [int(r) for r in np.nonzero(tab == vmin)[0]]
        expected = collections.Counter(
            _norm_solution(spec["cls"], lib(prob.convert_solution, ref.assignment(order, r, False), what="convert_solution"))
            for r in argmin)
        want_all = bool(spec["all"])
        res = lib(prob.solve_bruteforce, all_solutions=want_all, what="Problem.solve_bruteforce")
        ctx = "spec=%r qubo=%r" % (spec, terms)
        if want_all:
            if not isinstance(res, list):
                raise Violation("problem/all_solutions_not_list", "%r; %s" % (res, ctx))
            got = collections.Counter(_norm_solution(spec["cls"], x) for x in res)
            if got != expected:
                raise Violation("problem/all_solutions_ne_argmin_set", "got %r, reference %r; %s" % (res, sorted(expected, key=repr), ctx))
        else:
            if _norm_solution(spec["cls"], res) not in expected:
                raise Violation("problem/solution_not_a_minimiser", "got %r, reference %r; %s" % (res, sorted(expected, key=repr), ctx))
        if _norm(arg) != arg_before or dict(lib(prob.to_qubo, what="to_qubo")) != terms:
            raise Violation("problem/changed", ctx)
    rec.case(spec, len(argmin) >= 2, [spec["cls"], "all=%s" % want_all, "n=%d" % n])


# ---------------------------------------------------------------------------
# stale: models that are the result of earlier library calls and still report a variable whose terms cancelled.
# Which variables the returned assignment covers is not pinned for such models (see SEEDED.md, C09-2A), so the
# demand is only: no exception, the exact minimum, and an assignment that covers every variable occurring in a term
# (nothing beyond the reported variables) and attains the minimum.

def stale_cases():
    def for_kind(kind):
        spin, quad = gen.is_spin(kind), gen.is_quad(kind)
        return gen.label_pool(gen.is_matrix(kind), 2, 5).flatmap(lambda labels: st.fixed_dictionaries({
            "kind": st.just(kind), "labels": st.just(labels),
            "terms": gen.poly_strategy(labels[1:], 5, 2 if quad else 3, gen.SMALL_INT_COEFS, repeats=False, min_terms=1,
                                       quad=quad, spin=spin),
            "first": st.booleans(), "all": st.booleans(),
            "derive": st.sampled_from(["none", "copy", "add0", "mul2", "neg2", "ctor"]),
        }))
    return st.sampled_from(gen.ALL_KINDS).flatmap(for_kind)


def run_stale(spec, rec):
    import qubovert as qv
    kind, labels = spec["kind"], list(spec["labels"])
    spin = gen.is_spin(kind)
    ghost = labels[0]                      # occurs in no generated term
    with warnings.catch_warnings():
        warnings.simplefilter("ignore")
        M = gen.cls_of(qv, kind)()

        def build():
            if spec["first"]:
                M[(ghost,)] += 1
            for k, v in spec["terms"]:
                M[tuple(k)] += v
            if not spec["first"]:
                M[(ghost,)] += 1
            M[(ghost,)] -= 1
        lib(build, what="build")
        scale = 1
        if spec["derive"] != "none":
            M = lib({"copy": lambda: M.copy(), "add0": lambda: M + 0, "mul2": lambda: M * 2, "neg2": lambda: -(-M),
                     "ctor": lambda: type(M)(M)}[spec["derive"]], what="derive:" + spec["derive"])
            scale = 2 if spec["derive"] == "mul2" else 1
        terms = dict(M)
        true_vars = {l for k in terms for l in k}
        if ghost in true_vars:
            raise AssertionError("harness: ghost label in terms")
        order = sorted(true_vars, key=_okey)
        tab = ref.table(terms, order, spin)
        vmin = tab.min() if len(order) or terms else 0
        ctx = "kind=%s derive=%s model=%r reported variables=%r" % (kind, spec["derive"], terms, getattr(M, "variables", None))
        want_all = bool(spec["all"])
        sols = []
        fname = {"QUBO": "solve_qubo_bruteforce", "QUSO": "solve_quso_bruteforce", "QUBOMatrix": "solve_qubo_bruteforce",
                 "QUSOMatrix": "solve_quso_bruteforce"}.get(kind, "solve_puso_bruteforce" if spin else "solve_pubo_bruteforce")
        obj, sol = lib(getattr(qv.utils, fname), M, want_all, what=fname)
        if terms and obj != vmin:
            raise Violation("stale/objective_not_minimum", "objective %r, minimum %r; %s" % (obj, vmin, ctx))
        sols += (sol if want_all else [sol])
        res = lib(M.solve_bruteforce, want_all, what="method/" + kind)
        sols += (res if want_all else [res])
        reported = set(M.variables)
        for s_ in sols:
            if not isinstance(s_, dict) or not true_vars <= set(s_) or not set(s_) <= reported | true_vars:
                raise Violation("stale/solution_keys", "solution %r, variables in terms %r; %s" % (s_, sorted(true_vars, key=_okey), ctx))
            if true_vars and ref.ref_value(terms, s_) != vmin:
                raise Violation("stale/solution_not_optimal", "solution %r has value %r, minimum %r; %s" % (
                    s_, ref.ref_value(terms, s_), vmin, ctx))
    rec.case(spec, spec["derive"] != "none", [kind, "derive=" + spec["derive"], "ghost_first" if spec["first"] else "ghost_last"])


def subchecks(tier):
    return [Sub("solve", cases(), run_case, quick=14000, thorough=200000),
            Sub("problem", problem_cases(), run_problem, quick=600, thorough=6000),
            Sub("stale", stale_cases(), run_stale, quick=2400, thorough=30000)]
