"""Persistent child process executing annealer call sequences against a given
overlay build (ASan+UBSan build for C17, gcov build for the coverage pass).

Protocol (line-delimited JSON on stdin/stdout): request {"calls": [spec, ...]}
-> response {"results": [null | {"kind":..., "detail":...}, ...]}.
All calls of one request — and of all requests — run in this one process, so
heap corruption by an earlier call can surface in a later one.
"""
import os
import sys
import traceback


def main():
    build_path = sys.argv[1]
    root = os.path.dirname(os.path.dirname(os.path.abspath(__file__)))
    sys.path.insert(0, root)
    sys.path.insert(0, build_path)
    out = os.fdopen(os.dup(1), "w")
    os.dup2(2, 1)   # anything the library prints goes to stderr, not into the protocol
    import qubovert as qv
    from vf import anneal_gen as ag
    from vf import common
    so = qv.sim._canneal.__file__
    if not os.path.realpath(so).startswith(os.path.realpath(build_path)):
        out.write(common.jdumps({"ready": False, "error": "extension loaded from %s" % so}) + "\n")
        out.flush()
        return 3
    out.write(common.jdumps({"ready": True, "so": so}) + "\n")
    out.flush()
    for line in sys.stdin:
        line = line.strip()
        if not line:
            continue
        req = common.jloads(line)
        if req.get("quit"):
            break
        results = []
        for spec in req["calls"]:
            try:
                res, _ = ag.run_call(qv, spec)
                if req.get("digest"):
                    import hashlib
                    h = hashlib.blake2b(repr([(sorted(r.state.items(), key=repr), r.value) for r in res]).encode(),
                                        digest_size=8).hexdigest()
                    results.append({"ok": h})
                else:
                    results.append(None)
            except common.Violation as v:
                results.append({"kind": v.kind, "detail": v.detail})
            except BaseException as e:  # noqa
                results.append({"kind": "harness/" + type(e).__name__,
                                "detail": "".join(traceback.format_exception(type(e), e, e.__traceback__))[-2000:]})
        out.write(common.jdumps({"results": results}) + "\n")
        out.flush()
    return 0


if __name__ == "__main__":
    sys.exit(main())
