"""C10 — problem classes encode their combinatorial problem faithfully.

One sub-check per problem class (SetCover, VertexCover, BILP, JobSequencing,
GraphPartitioning, NumberPartitioning, AlternatingSectorsChain).  Every case is
a tiny instance that is feasible by construction and whose formulation has at
most 16 binary variables.  An independent combinatorial solver (plain python
enumeration in *problem space*: subsets, vectors, job assignments, balanced
partitions, sign vectors) gives the feasibility predicate and the optimal cost.

Checked per instance
(1) ``is_solution_valid`` == predicate on every decoded candidate solution and
    on the raw boolean / spin vectors (list, tuple, dict; ``spin=`` flag always
    matching the form supplied); all forms decode to the same object;
(2) explicit weights strictly above the documented threshold: every arg-min of
    the ``to_qubo()`` truth table and of the ``to_quso()`` truth table
    (``vf/ref.py`` tables, never the library's solver) decodes to a feasible
    optimal solution, and the minimum equals B * optimal cost
    (NumberPartitioning: A * (min |difference|)^2; AlternatingSectorsChain:
    the arg-min set is exactly the two all-equal configurations);
(3) default weights (SetCover, VertexCover, NumberPartitioning, unit-weight
    GraphPartitioning, JobSequencing): minimum == optimal cost and at least one
    arg-min decodes to a feasible optimum;
(4) ``solve_bruteforce`` (and ``all_solutions=True``) returns feasible optimal
    solution(s);
(5) every label of the formulation lies in ``range(num_binary_variables)`` and
    (where no coefficient can cancel) every such label is used.

A last sub-check generates *free variable* instances on purpose (a variable
that occurs in no term of the QUBO): candidate defect P10 of DESIGN.md.
"""
import itertools
import warnings

import numpy as np
from hypothesis import strategies as st

from . import ref
from .common import Sub, Violation, lib

ID = "C10"
RULE = ("Per problem class a Hypothesis strategy builds tiny instances feasible by construction (formulation <= 16 binary "
        "variables): SetCover (<=4 subsets over <=3 elements, every element covered, optional dyadic weights with max 1, "
        "log_trick both, optional M >= needed), VertexCover (<=6 vertices, mixed labels, self-loops, both orientations), BILP "
        "(S in {-2..2}^(m x N), N<=6, b := S.x0, lists or numpy), JobSequencing (<=3 jobs of length 1..3 or one long job, 2-3 "
        "workers, both encodings, list/tuple/dict, optional M whose slack capacity covers the total length), GraphPartitioning "
        "(even N<=8, unit weights for the threshold claim, weighted only with A > B*sum|w|, self-loops on existing vertices), "
        "NumberPartitioning (2..8 non-zero integers, list/tuple, half of them balanced by construction), "
        "AlternatingSectorsChain (2<=N<=10, positive strengths, pbc both). Weights B in {1/2,1,2}, A = thr*(1+eps)+delta with "
        "eps in {1e-3,1/2,3}, delta in {0,1/4,1} (delta>0 when thr=0), plus the defaults. Non-trivial = the instance has >= 2 "
        "feasible solutions of different cost and >= 1 infeasible assignment (ASC: both sectors present). Distinct = distinct "
        "spec hash. Sub-checks free_variable_*: BILP with a zero-cost zero-column variable, NumberPartitioning of one number.")
ASSUMPTIONS = [
    "thresholds as in the property text: SetCover/VertexCover A > B; BILP A > B*sum|c|; JobSequencing A > B*max length; "
    "GraphPartitioning A > B*min(2*maxdegree, N)/8 (unit weights, maxdegree over proper edges); weighted graphs A > B*sum|w|",
    "an explicit M is 'valid' when every slack value 0..T is representable (SetCover: M >= max multiplicity; JobSequencing: "
    "2^(int(log2 M)+1)-1 >= total length with the log trick, M(M+1)/2 >= total length without)",
    "BILP default weights (A = B*N) are judged only when N > sum|c|, i.e. when they exceed the documented threshold",
    "solve_bruteforce of GraphPartitioning / BILP is called with explicit weights above the threshold (default "
    "GraphPartitioning weights sit exactly on the threshold where infeasible ground states are allowed by the statement)",
    "index -> vertex / job conventions of convert_solution are not documented: decoded objects are judged structurally "
    "(size, subset of the vertex set, partition) and through feasibility / optimality of decoded ground states",
    "instances whose to_qubo() lacks a label of range(num_binary_variables) (free variable) skip check (4) in the main "
    "sub-checks (counted); the dedicated sub-checks free_variable_* report them under kind free_variable/solve_bruteforce/<Class>",
    "floating point: exact comparison when every coefficient of the form is a multiple of 1/8 and the sums stay within 52 bits; otherwise minimum compared with tolerance 1e-9 * (1 + sum|coef|) and arg-min set = rows within that tolerance",
]

MAXV = 16
EPS = [0.5, 1e-3, 3]
DELTA = [0, 0.25, 1]
BS = [1, 0.5, 2]

# labels: ints (also negative), strings, tuples; inside one type mutually orderable
POOLS8 = [
    [0, 1, 2, 3, 4, 5, 6, 7],
    ["a", "b", "c", "d", "e", "f", "g", "h"],
    [0, "a", 1, "b", ("x", 1), -3, "c", 2],
    [("x", 0), ("x", 1), ("y", 0), "z", 2, 7, "w", -1],
    [3, 1, 4, 15, 9, 2, 6, 5],
]

WEIGHTS = st.fixed_dictionaries({
    "B": st.sampled_from(BS),
    "eps": st.sampled_from(EPS),
    "delta": st.sampled_from(DELTA),
})


def explicit_A(thr, w):
    d = w["delta"]
    if thr == 0 and d == 0:
        d = 0.25
    return thr * (1 + w["eps"]) + d


def _bits(r, n):
    return [(r >> i) & 1 for i in range(n)]


# ---------------------------------------------------------------------------
# strategies


@st.composite
def setcover_spec(draw):
    pool = draw(st.sampled_from(POOLS8))
    n = draw(st.sampled_from([1, 2, 2, 3, 3, 4, 4, 5]))
    N = draw(st.sampled_from([1, 2, 3, 3, 4, 4, 5]))
    masks = [draw(st.integers(0, (1 << n) - 1)) for _ in range(N)]
    for e in range(n):
        if not any((m >> e) & 1 for m in masks):
            masks[draw(st.integers(0, N - 1))] |= 1 << e
    hub = draw(st.integers(0, 5)) == 0
    if hub:
        # one element shared by three subsets that are all indispensable (each owns a private element): every cover
        # hits the shared element three times, so the higher bits of the log-trick counter matter
        n, N = 4, 3
        masks = [0b0011, 0b0101, 0b1001]
        if draw(st.booleans()):
            masks.append(draw(st.integers(1, 15)))
            N = 4
        order = draw(st.permutations(list(range(N))))
        masks = [masks[i] for i in order]
    U = list(pool[:n])
    V = [[U[e] for e in range(n) if (m >> e) & 1] for m in masks]
    weights = None
    if draw(st.booleans()):
        weights = [draw(st.sampled_from([0.25, 0.5, 0.75, 1, 0.25, 0.5, 0.75, 1, 0])) for _ in range(N)]
        weights[draw(st.integers(0, N - 1))] = 1
    log_trick = draw(st.booleans()) or (hub and draw(st.booleans()))
    need = max(sum((m >> e) & 1 for m in masks) for e in range(n))
    if not log_trick and N + n * need > MAXV:
        log_trick = True          # larger set systems (an element in three or more subsets) only fit with the log trick
    M = draw(st.sampled_from([None, None, 0, 1, 2, 3]))
    if M is not None:
        M = need + M
        nv = N + n * (M.bit_length() + 1) if log_trick else N + n * M
        if nv > MAXV:
            M = None
    return {"cls": "SetCover", "U": U, "V": V, "vtype": draw(st.sampled_from(["list", "tuple"])),
            "weights": weights, "wtype": draw(st.sampled_from(["list", "tuple"])),
            "log_trick": log_trick, "M": M, "w": draw(WEIGHTS), "anc": draw(st.integers(0, (1 << 12) - 1))}


@st.composite
def vertexcover_spec(draw):
    pool = draw(st.sampled_from(POOLS8))
    nv = draw(st.integers(1, 6))
    vs = list(pool[:nv])
    pairs = [(i, j) for i in range(nv) for j in range(nv) if i != j]     # both orientations
    chosen = draw(st.lists(st.sampled_from(pairs), min_size=0 if nv == 1 else 1, max_size=9, unique=True)) if pairs else []
    if not chosen or draw(st.integers(0, 3)) == 0:
        for i in draw(st.lists(st.integers(0, nv - 1), min_size=0 if chosen else 1, max_size=2, unique=True)):
            chosen.append((i, i))                                            # self-loops
    edges = [[vs[i], vs[j]] for i, j in chosen]
    return {"cls": "VertexCover", "edges": edges, "w": draw(WEIGHTS), "anc": 0}


@st.composite
def bilp_spec(draw, free=False):
    N = draw(st.sampled_from([2, 3, 4, 5, 6] if free else [1, 2, 3, 4, 4, 5, 5, 6, 6]))
    m = draw(st.sampled_from([1, 1, 2, 2, 3]))
    ent = st.sampled_from(draw(st.sampled_from([[0, 1, -1, 1, 2, -2, 0, -1], [0, 1, 0, -1, 0, 1, 2, -2]])))
    S = [[draw(ent) for _ in range(N)] for _ in range(m)]
    cs = st.sampled_from(draw(st.sampled_from([[1, -1, 2, -2, 3, -3, 0, 1, 2]] * 3 + [[0, 1, 0, -1, 0]])))
    c = [draw(cs) for _ in range(N)]
    x0 = [draw(st.integers(0, 1)) for _ in range(N)]
    if free:
        fr = draw(st.lists(st.integers(0, N - 1), min_size=1, max_size=2, unique=True))
        for i in fr:
            c[i] = 0
            for row in S:
                row[i] = 0
    b = [sum(S[j][i] * x0[i] for i in range(N)) for j in range(m)]
    return {"cls": "BILP", "c": c, "S": S, "b": b, "numpy": draw(st.booleans()), "w": draw(WEIGHTS), "anc": 0}


def _js_min_M(T, log_trick):
    if log_trick:
        return 1 << (T.bit_length() - 1)
    M = 1
    while M * (M + 1) // 2 < T:
        M += 1
    return M


def _js_nvars(N, m, M, log_trick):
    return m * N + (m - 1) * (M.bit_length() if log_trick else M)


@st.composite
def jobsequencing_spec(draw):
    if draw(st.integers(0, 7)) == 0:
        # one long job: large slack values in the optimum
        lengths = [draw(st.sampled_from([7, 11, 13, 15, 4, 5, 6, 7, 8, 9, 10, 12, 14]))]
    else:
        N = draw(st.sampled_from([1, 2, 2, 3, 3]))
        lengths = [draw(st.integers(1, 3)) for _ in range(N)]
    N = len(lengths)
    m = draw(st.sampled_from([2, 2, 3]))
    log_trick = draw(st.booleans())
    T = sum(lengths)
    dflt = N * max(lengths)
    mn = _js_min_M(T, log_trick)
    opt = draw(st.sampled_from(["none", "none", "min", "min+1", "default", "default+1"]))
    M = {"none": None, "min": mn, "min+1": mn + 1, "default": dflt, "default+1": dflt + 1}[opt]
    if _js_nvars(N, m, dflt if M is None else M, log_trick) > MAXV:
        M = mn
    if _js_nvars(N, m, dflt if M is None else M, log_trick) > MAXV:
        m = 2
    form = draw(st.sampled_from(["list", "tuple", "dict"]))
    names = None
    if form == "dict":
        names = list(draw(st.sampled_from(POOLS8))[:N])
    return {"cls": "JobSequencing", "lengths": lengths, "names": names, "form": form, "workers": m,
            "log_trick": log_trick, "M": M, "w": draw(WEIGHTS), "anc": draw(st.integers(0, (1 << 12) - 1))}


@st.composite
def graphpartitioning_spec(draw):
    pool = draw(st.sampled_from(POOLS8))
    N = draw(st.sampled_from([2, 4, 4, 6, 6, 8]))
    vs = list(pool[:N])
    pairs = [(i, j) for i in range(N) for j in range(i + 1, N)]
    chosen = set(draw(st.lists(st.sampled_from(pairs), min_size=0, max_size=min(len(pairs), 12), unique=True)))
    covered = {i for p in chosen for i in p}
    for v in range(N):
        if v not in covered:
            u = draw(st.integers(0, N - 2))
            u = u if u < v else u + 1
            chosen.add((min(u, v), max(u, v)))
            covered.update((u, v))
    edges = []
    weighted = draw(st.sampled_from([False, False, True]))
    for (i, j) in sorted(chosen):
        if draw(st.booleans()):
            i, j = j, i
        wt = draw(st.sampled_from([-2, -1, -0.5, 0.5, 1, 1, 2, 3])) if weighted else 1
        edges.append([vs[i], vs[j], wt])
    for v in draw(st.lists(st.integers(0, N - 1), min_size=0, max_size=2, unique=True)) if draw(st.booleans()) else []:
        edges.append([vs[v], vs[v], draw(st.sampled_from([1, 2, -1])) if weighted else 1])
    return {"cls": "GraphPartitioning", "edges": edges, "weighted": weighted, "w": draw(WEIGHTS), "anc": 0}


@st.composite
def numberpartitioning_spec(draw, single=False):
    val = st.sampled_from([1, 2, 3, 4, 5, 6, 7, 8, 9, 1, 2, 3, 5, 7, -1, -2, -3, -5])
    if single:
        S = [draw(val)]
    else:
        N = draw(st.integers(2, 8))
        S = [draw(val) for _ in range(N)]
        if draw(st.booleans()):
            s = sum(v if draw(st.booleans()) else -v for v in S[:-1])
            if s != 0:
                S[-1] = abs(s) if draw(st.booleans()) else -abs(s)
    if not single and draw(st.integers(0, 5)) == 0:
        # large numbers that differ by little: exact integer arithmetic throughout (products stay below 2^53)
        base = draw(st.sampled_from([300000, 2 ** 18, 99999]))
        S = [base + v for v in S[:6]]
    return {"cls": "NumberPartitioning", "S": S, "stype": draw(st.sampled_from(["list", "tuple"])),
            "A": draw(st.sampled_from([0.5, 1, 2, 3])), "anc": 0}


@st.composite
def asc_spec(draw):
    N = draw(st.integers(2, 10))
    args = None
    if draw(st.integers(0, 3)) > 0:
        args = [draw(st.integers(2, 4)), draw(st.integers(1, 10)), draw(st.integers(1, 10))]
    return {"cls": "AlternatingSectorsChain", "N": N, "args": args, "pbc": draw(st.booleans()), "anc": 0}




# ---------------------------------------------------------------------------
# adapters: instance construction + independent oracle per problem class


class Adapter:
    name = "?"
    default_claim = False      # statement (3) names the class
    injective = True           # decoded objects of distinct assignments must differ
    symmetric = False          # boolean / spin forms decode to swapped partitions

    def bad(self, what, detail):
        raise Violation("%s/%s" % (what, self.name), "%s; instance=%s" % (detail, self.describe()))

    def describe(self):
        return "%s%r" % (self.name, self.args_repr)


class SetCoverA(Adapter):
    name = "SetCover"
    default_claim = True

    def __init__(self, qv, spec):
        self.U = set(spec["U"])
        self.Vl = [set(v) for v in spec["V"]]
        V = (list if spec["vtype"] == "list" else tuple)(set(v) for v in spec["V"])
        self.N = len(V)
        ws = spec["weights"]
        self.spec_weights = list(ws) if ws else None
        self.ws = [1] * self.N if ws is None else list(ws)
        kw = {"log_trick": bool(spec["log_trick"])}
        if ws is not None:
            kw["weights"] = (list if spec["wtype"] == "list" else tuple)(ws)
        if spec["M"] is not None:
            kw["M"] = spec["M"]
        self.args_repr = (spec["U"], spec["V"], kw)
        self.P = lib(qv.problems.SetCover, set(self.U), V, what="SetCover", **kw)
        self.k = self.N
        self.own_bruteforce = True

    def threshold(self, B):
        return B

    def weights_kw(self, A, B):
        return {"A": A, "B": B}

    def structure(self, d, bits, spin):
        if not isinstance(d, set):
            self.bad("decode_type", "convert_solution returned %r" % (d,))
        want = {i for i in range(self.N) if bits[i]}
        if d != want:
            self.bad("decode_wrong", "bits=%r spin=%r decoded=%r expected=%r" % (bits, spin, d, want))

    def wellformed(self, d):
        return isinstance(d, set) and d <= set(range(self.N))

    def canon(self, d):
        return frozenset(d)

    def feasible(self, d):
        cov = set()
        for i in d:
            cov |= self.Vl[i]
        return cov == self.U

    def cost(self, d):
        return sum(self.ws[i] for i in d)

    def solve(self):
        costs, infeasible = set(), False
        for r in range(1 << self.N):
            d = {i for i in range(self.N) if (r >> i) & 1}
            if self.feasible(d):
                costs.add(self.cost(d))
            else:
                infeasible = True
        return min(costs), costs, infeasible


class VertexCoverA(Adapter):
    name = "VertexCover"
    default_claim = True

    def __init__(self, qv, spec):
        self.edges = [tuple(e) for e in spec["edges"]]
        self.args_repr = self.edges
        self.V = []
        for e in self.edges:
            for v in e:
                if v not in self.V:
                    self.V.append(v)
        self.P = lib(qv.problems.VertexCover, set(self.edges), what="VertexCover")
        self.k = len(self.V)
        self.own_bruteforce = False

    def threshold(self, B):
        return B

    def weights_kw(self, A, B):
        return {"A": A, "B": B}

    def structure(self, d, bits, spin):
        if not isinstance(d, set) or not d <= set(self.V) or len(d) != sum(bits[:self.k]):
            self.bad("decode_wrong", "bits=%r spin=%r decoded=%r vertices=%r" % (bits, spin, d, self.V))

    def wellformed(self, d):
        return isinstance(d, set) and d <= set(self.V)

    def canon(self, d):
        return frozenset(d)

    def feasible(self, d):
        return all(u in d or v in d for u, v in self.edges)

    def cost(self, d):
        return len(d)

    def solve(self):
        costs, infeasible = set(), False
        for r in range(1 << self.k):
            d = {self.V[i] for i in range(self.k) if (r >> i) & 1}
            if self.feasible(d):
                costs.add(len(d))
            else:
                infeasible = True
        return min(costs), costs, infeasible


class BILPA(Adapter):
    name = "BILP"

    def __init__(self, qv, spec):
        self.c = [int(x) for x in spec["c"]]
        self.S = [[int(x) for x in row] for row in spec["S"]]
        self.b = [int(x) for x in spec["b"]]
        self.N = len(self.c)
        self.args_repr = (self.c, self.S, self.b)
        if spec["numpy"]:
            args = (np.array(self.c), np.array(self.S), np.array(self.b))
        else:
            args = (list(self.c), [list(r) for r in self.S], list(self.b))
        self.P = lib(qv.problems.BILP, *args, what="BILP")
        self.k = self.N
        self.own_bruteforce = False

    def threshold(self, B):
        return B * sum(abs(x) for x in self.c)

    def weights_kw(self, A, B):
        return {"A": A, "B": B}

    def _vec(self, d):
        if not isinstance(d, np.ndarray) or d.shape != (self.N,):
            return None
        v = [int(x) for x in d]
        if any(x not in (0, 1) for x in v) or any(x != y for x, y in zip(v, d)):
            return None
        return v

    def structure(self, d, bits, spin):
        v = self._vec(d)
        if v is None or v != list(bits[:self.N]):
            self.bad("decode_wrong", "bits=%r spin=%r decoded=%r" % (bits, spin, d))

    def wellformed(self, d):
        return self._vec(d) is not None

    def canon(self, d):
        return tuple(int(x) for x in d)

    def _feas(self, v):
        return all(sum(self.S[j][i] * v[i] for i in range(self.N)) == self.b[j] for j in range(len(self.b)))

    def feasible(self, d):
        return self._feas([int(x) for x in d])

    def cost(self, d):
        return sum(ci * int(x) for ci, x in zip(self.c, d))

    def solve(self):
        costs, infeasible = set(), False
        for v in itertools.product((0, 1), repeat=self.N):
            if self._feas(v):
                costs.add(sum(ci * x for ci, x in zip(self.c, v)))
            else:
                infeasible = True
        return min(costs), costs, infeasible


class JobSequencingA(Adapter):
    name = "JobSequencing"
    default_claim = True

    def __init__(self, qv, spec):
        ls = [int(x) for x in spec["lengths"]]
        self.m = int(spec["workers"])
        if spec["form"] == "dict":
            names = list(spec["names"])
            arg = {}
            for nme, ln in zip(names, ls):
                arg[nme] = ln
            self.lengths = dict(arg)
        else:
            arg = (list if spec["form"] == "list" else tuple)(ls)
            self.lengths = dict(enumerate(ls))
        self.jobs = list(self.lengths)
        self.N = len(self.jobs)
        kw = {"log_trick": bool(spec["log_trick"])}
        if spec["M"] is not None:
            kw["M"] = spec["M"]
        self.args_repr = (arg, self.m, kw)
        self.P = lib(qv.problems.JobSequencing, arg, self.m, what="JobSequencing", **kw)
        self.k = self.m * self.N
        self.own_bruteforce = True

    def threshold(self, B):
        return B * max(self.lengths.values())

    def weights_kw(self, A, B):
        return {"A": A, "B": B}

    def wellformed(self, d):
        return (isinstance(d, tuple) and len(d) == self.m and all(isinstance(s, set) for s in d)
                and all(s <= set(self.jobs) for s in d))

    def structure(self, d, bits, spin):
        if not self.wellformed(d) or sum(len(s) for s in d) != sum(bits[:self.k]):
            self.bad("decode_wrong", "bits=%r spin=%r decoded=%r" % (bits, spin, d))

    def canon(self, d):
        return tuple(frozenset(s) for s in d)

    def feasible(self, d):
        seen = []
        for s in d:
            seen.extend(s)
        return len(seen) == self.N and set(seen) == set(self.jobs)

    def cost(self, d):
        return max(sum(self.lengths[j] for j in s) for s in d)

    def solve(self):
        costs = set()
        for asg in itertools.product(range(self.m), repeat=self.N):
            loads = [0] * self.m
            for j, wk in zip(self.jobs, asg):
                loads[wk] += self.lengths[j]
            costs.add(max(loads))
        return min(costs), costs, True     # the all-zero assignment covers no job


class GraphPartitioningA(Adapter):
    name = "GraphPartitioning"
    default_claim = True
    symmetric = True

    def __init__(self, qv, spec):
        self.weighted = bool(spec["weighted"])
        self.edges = [(e[0], e[1], e[2]) for e in spec["edges"]]
        self.proper = [(u, v, w) for u, v, w in self.edges if u != v]
        self.V = []
        for u, v, _ in self.proper:
            for q in (u, v):
                if q not in self.V:
                    self.V.append(q)
        if self.weighted:
            arg = {}
            for u, v, w in self.edges:
                arg[(u, v)] = w
        else:
            arg = {(u, v) for u, v, _ in self.edges}
        self.args_repr = arg
        self.default_claim = not self.weighted
        self.P = lib(qv.problems.GraphPartitioning, arg, what="GraphPartitioning")
        self.k = len(self.V)
        self.own_bruteforce = False
        # the documented attribute "degree: the maximum degree of the graph" enters the threshold of the statement.  Judged
        # on simple graphs only (no repeated label, no edge given in both orientations), where the degree of a vertex
        # has one meaning
        pairs = {(u, v) for u, v, _ in self.edges}
        if len(self.proper) == len(self.edges) and not any((v, u) in pairs for u, v in pairs):
            deg = {}
            for u, v, _ in self.proper:
                deg[u] = deg.get(u, 0) + 1
                deg[v] = deg.get(v, 0) + 1
            want = max(deg.values()) if deg else 0
            got = lib(getattr, self.P, "degree", what="degree")
            if got != want:
                self.bad("degree_attribute", "degree = %r, the maximum degree of the graph is %r" % (got, want))

    def threshold(self, B):
        if self.weighted:
            return B * sum(abs(w) for _, _, w in self.edges)
        deg = {}
        for u, v, _ in self.proper:
            deg[u] = deg.get(u, 0) + 1
            deg[v] = deg.get(v, 0) + 1
        return B * min(2 * max(deg.values()), self.k) / 8

    def weights_kw(self, A, B):
        return {"A": A, "B": B}

    def wellformed(self, d):
        return (isinstance(d, tuple) and len(d) == 2 and all(isinstance(s, set) for s in d)
                and not (d[0] & d[1]) and (d[0] | d[1]) == set(self.V))

    def structure(self, d, bits, spin):
        ones = sum(bits[:self.k])
        if not self.wellformed(d) or sorted(len(s) for s in d) != sorted([ones, self.k - ones]):
            self.bad("decode_wrong", "bits=%r spin=%r decoded=%r vertices=%r" % (bits, spin, d, self.V))

    def canon(self, d):
        return frozenset([frozenset(d[0]), frozenset(d[1])])

    def canon_ordered(self, d):
        return (frozenset(d[0]), frozenset(d[1]))

    def feasible(self, d):
        return len(d[0]) == len(d[1])

    def cost(self, d):
        return sum(w for u, v, w in self.proper if (u in d[0]) != (v in d[0]))

    def solve(self):
        costs, infeasible = set(), False
        for r in range(1 << self.k):
            p1 = {self.V[i] for i in range(self.k) if (r >> i) & 1}
            d = (p1, set(self.V) - p1)
            if self.feasible(d):
                costs.add(self.cost(d))
            else:
                infeasible = True
        return min(costs), costs, infeasible


class NumberPartitioningA(Adapter):
    """'cost' is |sum(p1) - sum(p2)|; a solution is *valid* iff the cost is 0, and
    *good* iff the cost is minimal (the statement's optimum for this class)."""
    name = "NumberPartitioning"
    default_claim = True
    injective = False
    symmetric = True

    def __init__(self, qv, spec):
        self.S = [int(x) for x in spec["S"]]
        self.typ = list if spec["stype"] == "list" else tuple
        self.args_repr = self.typ(self.S)
        self.P = lib(qv.problems.NumberPartitioning, self.typ(self.S), what="NumberPartitioning")
        self.k = len(self.S)
        self.own_bruteforce = False

    def wellformed(self, d):
        return (isinstance(d, tuple) and len(d) == 2 and all(isinstance(p, self.typ) for p in d)
                and sorted(list(d[0]) + list(d[1])) == sorted(self.S))

    def structure(self, d, bits, spin):
        ok = self.wellformed(d)
        if ok:
            a = sorted(self.S[i] for i in range(self.k) if bits[i])
            b = sorted(self.S[i] for i in range(self.k) if not bits[i])
            got = sorted([sorted(d[0]), sorted(d[1])])
            ok = got == sorted([a, b])
        if not ok:
            self.bad("decode_wrong", "bits=%r spin=%r decoded=%r" % (bits, spin, d))

    def canon(self, d):
        return tuple(sorted([tuple(sorted(d[0])), tuple(sorted(d[1]))]))

    def feasible(self, d):
        return sum(d[0]) == sum(d[1])

    def cost(self, d):
        return abs(sum(d[0]) - sum(d[1]))

    def solve(self):
        diffs = set()
        for signs in itertools.product((1, -1), repeat=self.k):
            diffs.add(abs(sum(s * v for s, v in zip(signs, self.S))))
        return min(diffs), diffs, max(diffs) > 0


class ASCA(Adapter):
    name = "AlternatingSectorsChain"

    def __init__(self, qv, spec):
        self.N = int(spec["N"])
        args = [self.N] + (list(spec["args"]) if spec["args"] is not None else [])
        self.args_repr = (args, spec["pbc"])
        self.P = lib(qv.problems.AlternatingSectorsChain, *args, what="AlternatingSectorsChain")
        self.k = self.N
        self.chain = args[1] if len(args) > 1 else 3
        self.own_bruteforce = False

    def wellformed(self, d):
        return isinstance(d, (tuple, list)) and len(d) == self.N and all(x in (1, -1) for x in d)

    def structure(self, d, bits, spin):
        if not self.wellformed(d) or [int(x) for x in d] != [1 - 2 * b for b in bits[:self.N]]:
            self.bad("decode_wrong", "bits=%r spin=%r decoded=%r" % (bits, spin, d))

    def canon(self, d):
        return tuple(int(x) for x in d)

    def feasible(self, d):
        return len(set(d)) <= 1

    def cost(self, d):
        return 0

    def solve(self):
        return 0, {0}, True


ADAPTERS = {a.name: a for a in (SetCoverA, VertexCoverA, BILPA, JobSequencingA, GraphPartitioningA,
                                NumberPartitioningA, ASCA)}


# ---------------------------------------------------------------------------
# engine


def _labels(D):
    out = set()
    for key in D:
        out.update(key)
    return out


def _scale(D):
    return 1.0 + sum(abs(float(v)) for v in dict.values(D))


def check_validity_and_decoding(ad, nbv, anc, rec):
    """(1): all 2^k assignments of the solution variables, ancillas from ``anc``."""
    P, k = ad.P, ad.k
    seen = {}
    best = None
    all_forms = k <= 6
    for x in range(1 << k):
        full = (x | (anc << k)) & ((1 << nbv) - 1)
        bits = _bits(full, nbv)
        spins = [1 - 2 * b for b in bits]
        d = lib(P.convert_solution, list(bits), spin=False, what="convert_solution")
        ad.structure(d, bits, False)
        c = ad.canon(d)
        f = bool(ad.feasible(d))
        if f or ad.name == "NumberPartitioning":       # NumberPartitioning: optimum = minimal |difference|
            cst = ad.cost(d)
            best = cst if best is None or cst < best else best
        if ad.injective:
            key = ad.canon_ordered(d) if hasattr(ad, "canon_ordered") else c
            if key in seen:
                ad.bad("decode_not_injective", "assignments %r and %r both decode to %r" % (seen[key], bits[:k], d))
            seen[key] = bits[:k]
        v = lib(P.is_solution_valid, d, what="is_solution_valid(decoded)")
        if bool(v) != f:
            ad.bad("is_solution_valid/decoded", "is_solution_valid(%r) = %r, independent predicate says %r" % (d, v, f))
        forms = [
            ("list", False, list(bits)), ("tuple", False, tuple(bits)), ("dict", False, dict(enumerate(bits))),
            ("list", True, list(spins)), ("tuple", True, tuple(spins)), ("dict", True, dict(enumerate(spins))),
            # a dict is a mapping: its insertion order must not matter
            ("dict_reversed", False, dict(reversed(list(enumerate(bits))))),
            ("dict_reversed", True, dict(reversed(list(enumerate(spins))))),
        ]
        if not all_forms:
            forms = [forms[x % 3], forms[3 + (x // 3) % 3], forms[6 + x % 2]]
        for fname, spin, sol in forms:
            d2 = lib(P.convert_solution, sol, spin=spin, what="convert_solution")
            ad.structure(d2, bits, spin)
            if ad.canon(d2) != c:
                ad.bad("decode_forms_differ", "%s spin=%r %r decodes to %r, boolean list decodes to %r" %
                       (fname, spin, sol, d2, d))
            v = lib(P.is_solution_valid, sol, spin=spin, what="is_solution_valid(raw)")
            if bool(v) != f:
                ad.bad("is_solution_valid/raw_%s_%s" % (fname, "spin" if spin else "bool"),
                       "is_solution_valid(%r, spin=%r) = %r, independent predicate on %r says %r" % (sol, spin, v, d, f))
            # the spin flag is documented to matter only for all-ones solutions; when the vector contains
            # a 0 (boolean) or a -1 (spin) the form is unambiguous and the flag may be omitted
            vals_ = list(sol.values()) if isinstance(sol, dict) else list(sol)
            if any(t == (-1 if spin else 0) for t in vals_):
                d3 = lib(P.convert_solution, sol, what="convert_solution(no flag)")
                if ad.canon(d3) != c:
                    ad.bad("decode_noflag_differs/%s" % ("spin" if spin else "bool"),
                           "%s %r without the flag decodes to %r, with spin=%r to %r" % (fname, sol, d3, spin, d2))
                v3 = lib(P.is_solution_valid, sol, what="is_solution_valid(raw, no flag)")
                if bool(v3) != f:
                    ad.bad("is_solution_valid_noflag/raw_%s_%s" % (fname, "spin" if spin else "bool"),
                           "is_solution_valid(%r) without the flag = %r, independent predicate on %r says %r" % (sol, v3, d, f))
    return best


def _exact_form(D):
    try:
        return all(float(v * 8).is_integer() for v in D.values()) and sum(abs(float(v)) for v in D.values()) * 8 < 2.0 ** 52
    except (TypeError, OverflowError):
        return False


def analyse(ad, nbv, kw, expect_min, good, strict, tag, rec, exact_argmin=None):
    """(2)/(3)/(5) for one choice of weights.  Returns True when the formulation has a free variable."""
    P, k = ad.P, ad.k
    free = False
    for form, spin in (("qubo", False), ("quso", True)):
        D = lib(getattr(P, "to_" + form), what="to_" + form, **kw)
        D = dict(D)
        labels = _labels(D)
        badl = [l for l in labels if not isinstance(l, (int, np.integer)) or isinstance(l, bool) or not 0 <= l < nbv]
        if badl:
            ad.bad("labels_outside_num_binary_variables/" + form,
                   "labels %r not in range(%d); kw=%r" % (badl, nbv, kw))
        missing = sorted(set(range(nbv)) - {int(l) for l in labels})
        if missing:
            if form == "qubo":
                free = True
            if ad.all_labels_used(tag):
                ad.bad("labels_unused/" + form, "num_binary_variables=%d but labels %r occur in no term; kw=%r" %
                       (nbv, missing, kw))
            rec.add("free_variable_formulations")
        t = ref.table(D, list(range(nbv)), spin)
        # exact when every coefficient is a multiple of 1/8 and the table cannot leave the 53-bit mantissa; a
        # tolerance relative to the coefficient mass would declare near-optimal rows of large-number instances optimal
        tol = 0.0 if _exact_form(D) else 1e-9 * _scale(D)
        mn = float(t.min())
        rows = np.nonzero(t <= mn + tol)[0]
        if exact_argmin is not None:
            got = sorted(int(r) for r in rows)
            if got != exact_argmin:
                ad.bad("ground_states/" + form, "arg-min rows %r, expected exactly %r; kw=%r form=%r" %
                       (got[:10], exact_argmin, kw, D))
        elif abs(mn - expect_min) > (tol + 1e-9 * abs(expect_min) if tol else 0.0):
            ad.bad("min_value/%s/%s" % (form, tag), "minimum of to_%s(%r) is %r, expected %r; form=%r" %
                   (form, kw, mn, expect_min, D))
        # one representative row per distinct solution part (+ the last one, another ancilla pattern)
        reps = {}
        for r in rows:
            r = int(r)
            xp = r & ((1 << k) - 1)
            if xp not in reps:
                reps[xp] = [r]
            elif len(reps[xp]) < 2:
                reps[xp].append(r)
            else:
                reps[xp][1] = r
        any_good = False
        n = 0
        for xp in sorted(reps):
            for r in reps[xp]:
                bits = _bits(r, nbv)
                vals = [1 - 2 * b for b in bits] if spin else bits
                sol = [list(vals), dict(enumerate(vals)), tuple(vals)][n % 3]
                n += 1
                d = lib(P.convert_solution, sol, spin=spin, what="convert_solution")
                ad.structure(d, bits, spin)
                g = good(d)
                any_good = any_good or g
                if strict and not g:
                    ad.bad("ground_state_not_feasible_optimal/%s/%s" % (form, tag),
                           "arg-min %r of to_%s(%r) (value %r) decodes to %r: feasible=%r cost=%r, optimum=%r" %
                           (vals, form, kw, mn, d, ad.feasible(d), ad.cost(d), expect_min))
        if not any_good:
            ad.bad("no_ground_state_feasible_optimal/%s/%s" % (form, tag),
                   "no arg-min of to_%s(%r) (value %r) decodes to a feasible optimum; rows=%r" %
                   (form, kw, mn, [int(r) for r in rows[:8]]))
    return free


def check_bruteforce(ad, kw, good, rec, kind="bruteforce"):
    P = ad.P
    for allsol in (False, True):
        kk = dict(kw)
        if allsol:
            kk["all_solutions"] = True
        pos = ()
        if set(kw) in ({"A", "B"}, {"A"}) and not allsol:
            # the penalty weights handed over positionally, in the documented order of to_qubo(A, B)
            pos = (kk.pop("A"),) + ((kk.pop("B"),) if "B" in kk else ())
        res = lib(P.solve_bruteforce, *pos, what="solve_bruteforce", **kk)
        if pos:
            kk = dict(kw)
        if allsol:
            if not isinstance(res, list) or not res:
                ad.bad(kind + "_result", "solve_bruteforce(%r) returned %r" % (kk, res))
            items = res
        else:
            items = [res]
        for d in items:
            if not ad.wellformed(d):
                ad.bad(kind + "_malformed", "solve_bruteforce(%r) returned %r" % (kk, d))
            if not good(d):
                ad.bad(kind + "_not_feasible_optimal", "solve_bruteforce(%r) returned %r: feasible=%r cost=%r" %
                       (kk, d, ad.feasible(d), ad.cost(d)))
    rec.add("bruteforce_checked")


def _all_labels_used(ad):
    def f(tag):
        if ad.name == "BILP":
            return False                    # linear and pair coefficients may cancel
        if ad.name == "GraphPartitioning" and tag.startswith("default"):
            return False                    # A = B/4 cancels the coupling of a degree-1 edge
        if ad.name == "SetCover" and any(w == 0 for w in (getattr(ad, "spec_weights", None) or [])):
            return False                    # a subset of weight 0 that covers nothing occurs in no term
        return True
    return f


def run_case(spec, rec):
    import qubovert as qv
    with warnings.catch_warnings():
        warnings.simplefilter("ignore")
        _run(spec, rec, qv)


def _run(spec, rec, qv):
    ad = ADAPTERS[spec["cls"]](qv, spec)
    ad.all_labels_used = _all_labels_used(ad)
    P = ad.P
    classes = [ad.name]
    nbv = lib(getattr, P, "num_binary_variables", what="num_binary_variables")
    if not isinstance(nbv, (int, np.integer)) or nbv < ad.k:
        ad.bad("num_binary_variables", "num_binary_variables=%r, solution variables=%d" % (nbv, ad.k))
    nbv = int(nbv)
    if nbv > MAXV:
        rec.add("too_big")
        return
    classes.append("nbv=%02d" % nbv if nbv >= 10 else "nbv<10")
    opt, costs, infeasible = ad.solve()

    # (1)
    best = check_validity_and_decoding(ad, nbv, int(spec.get("anc", 0)), rec)
    if best != opt:
        ad.bad("decode_space_mismatch", "best feasible cost over all decoded assignments %r != optimum %r" % (best, opt))

    def good(d):
        return bool(ad.feasible(d)) and ad.cost(d) == opt

    free = {}
    name = ad.name
    if name == "NumberPartitioning":
        def good(d):                                    # noqa: F811
            return ad.cost(d) == opt
        A = spec["A"]
        free["explicit"] = analyse(ad, nbv, {"A": A}, A * opt * opt, good, True, "explicit", rec)
        free["default"] = analyse(ad, nbv, {}, opt * opt, good, False, "default", rec)
        classes += ["weights/explicit", "weights/default", "A=%s" % A, "stype=" + spec["stype"],
                    "balanced" if opt == 0 else "unbalanced"]
        if any(v < 0 for v in ad.S):
            classes.append("negative_numbers")
        bf = [({"A": A}, "explicit"), ({}, "default")]
    elif name == "AlternatingSectorsChain":
        pbc = bool(spec["pbc"])
        want = [0, (1 << nbv) - 1]
        free["explicit"] = analyse(ad, nbv, {"pbc": pbc}, None, good, True, "explicit", rec, exact_argmin=want)
        classes += ["pbc=%s" % pbc, "default_strengths" if spec["args"] is None else "explicit_strengths"]
        if not pbc:
            free["default"] = analyse(ad, nbv, {}, None, good, True, "default", rec, exact_argmin=want)
        bf = [({"pbc": pbc}, "explicit")]
    else:
        w = spec["w"]
        B = w["B"]
        thr = ad.threshold(B)
        A = explicit_A(thr, w)
        assert A > thr
        kw = ad.weights_kw(A, B)
        free["explicit"] = analyse(ad, nbv, kw, B * opt, good, True, "explicit", rec)
        classes += ["weights/explicit", "B=%s" % B, "eps=%s" % w["eps"]]
        bf = [] if ad.own_bruteforce else [(kw, "explicit")]
        if name == "BILP":
            if ad.N > sum(abs(x) for x in ad.c):        # default A = B*N exceeds the threshold B*sum|c|
                free["default"] = analyse(ad, nbv, {}, opt, good, True, "default", rec)
                classes.append("weights/default")
                bf.append(({}, "default"))
            else:
                rec.add("bilp_default_below_threshold")
            classes.append("numpy" if spec["numpy"] else "lists")
        elif ad.default_claim:
            free["default"] = analyse(ad, nbv, {}, opt, good, False, "default", rec)
            classes.append("weights/default")
            if name == "VertexCover":
                bf.append(({}, "default"))
            if name in ("GraphPartitioning", "JobSequencing") and B != 1:
                # these two derive the default constraint weight from B (documented: A = B*max_length,
                # A = min(2*degree, N)*B/8), so with A left at its default the whole energy scales with B and
                # the default-weight claim carries over: ground energy = B * optimal cost
                analyse(ad, nbv, {"B": B}, B * opt, good, False, "default_A_explicit_B", rec)
                classes.append("weights/default_A_explicit_B")
        if ad.own_bruteforce:
            bf = [({}, "own")]
        if "log_trick" in spec:
            classes += ["log_trick=%s" % bool(spec["log_trick"]), "M=default" if spec["M"] is None else "M=explicit"]
        if name == "SetCover":
            classes.append("weighted" if spec["weights"] is not None else "unweighted")
        if name == "JobSequencing":
            classes += ["workers=%d" % ad.m, "form=" + spec["form"]]
            if max(ad.lengths.values()) > 3:
                classes.append("long_single_job")
        if name == "GraphPartitioning":
            classes.append("weighted" if ad.weighted else "unit")
            if len(ad.edges) != len(ad.proper):
                classes.append("self_loop")
        if name == "VertexCover" and any(u == v for u, v in ad.edges):
            classes.append("self_loop")

    # (4)
    for kw, tag in bf:
        if free.get(tag):
            rec.add("free_variable_instance_bruteforce_skipped")
            classes.append("free_variable")
        else:
            check_bruteforce(ad, kw, good, rec)

    nontrivial = len(costs) >= 2 and infeasible
    if name == "AlternatingSectorsChain":
        nontrivial = nbv - 1 + (1 if spec["pbc"] else 0) > ad.chain
    rec.case(spec, nontrivial, sorted(set(classes)))


def run_free(spec, rec):
    """Free-variable instances: solve_bruteforce must still return a complete, feasible, optimal solution."""
    import qubovert as qv
    with warnings.catch_warnings():
        warnings.simplefilter("ignore")
        ad = ADAPTERS[spec["cls"]](qv, spec)
        ad.all_labels_used = lambda tag: False
        P = ad.P
        nbv = int(lib(getattr, P, "num_binary_variables", what="num_binary_variables"))
        opt, costs, infeasible = ad.solve()
        if ad.name == "BILP":
            w = spec["w"]
            B = w["B"]
            kw = {"A": explicit_A(ad.threshold(B), w), "B": B}

            def good(d):
                return bool(ad.feasible(d)) and ad.cost(d) == opt
        else:
            kw = {"A": spec["A"]}

            def good(d):
                return ad.cost(d) == opt
        Q = dict(lib(P.to_qubo, what="to_qubo", **kw))
        missing = sorted(set(range(nbv)) - _labels(Q))
        if not missing:
            rec.add("free_sub_without_free_variable")
        try:
            check_bruteforce(ad, kw, good, rec, kind="bf")
        except Violation as v:
            if missing:
                raise Violation("free_variable/solve_bruteforce/" + ad.name,
                                "%s: labels %r of range(%d) occur in no term of to_qubo(%r)=%r; %s" %
                                (ad.name, missing, nbv, kw, Q, v.detail)) from v
            raise
        rec.case(spec, bool(missing), [ad.name, "free=%d" % len(missing)])


def subchecks(tier):
    return [
        Sub("SetCover", setcover_spec(), run_case, quick=720, thorough=9600),
        Sub("VertexCover", vertexcover_spec(), run_case, quick=1000, thorough=12000),
        Sub("BILP", bilp_spec(), run_case, quick=1000, thorough=12000),
        Sub("JobSequencing", jobsequencing_spec(), run_case, quick=720, thorough=9600),
        Sub("GraphPartitioning", graphpartitioning_spec(), run_case, quick=800, thorough=9600),
        Sub("NumberPartitioning", numberpartitioning_spec(), run_case, quick=800, thorough=9600),
        Sub("AlternatingSectorsChain", asc_spec(), run_case, quick=400, thorough=4800),
        # candidate defect P10 (DESIGN.md section 5): kept last so that every other sub-check has run in each shard
        Sub("free_variable_BILP", bilp_spec(free=True), run_free, quick=120, thorough=1200),
        Sub("free_variable_NumberPartitioning", numberpartitioning_spec(single=True), run_free, quick=24, thorough=64),
    ]
