"""C02 — PCBO comparison constraints become exact non-negative penalties.

(The machinery is shared with C03: ``run(spec, rec, spin)`` and
``case_strategy(spin)`` work for boolean models / PCBO and for spin models /
PCSO; ``vf/c03.py`` only binds ``spin=True``.)

One case = one model holding a random base objective, to which 1..3 (spin: 1..4)
comparison constraints ``P R 0`` are added one after another (optionally
switching to a ``copy()`` of the model mid-way).  After every call

    F := (model after) - (model before)          (reference subtraction)

is tabulated on *all* assignments of the labels and of the new ancillas:

    F >= 0 everywhere;
    R(P(x)) holds (reference value)  =>  min_a F(x, a) == 0;
    R(P(x)) fails                    =>  min_a F(x, a) >= lam;
    (if the library warned "cannot be satisfied": only F >= 0);
    variables of F  subset of  labels(P) + ancillas named __a<k> that were never
    seen before on this model, every k < num_ancillas;
    is_solution_valid(x + arbitrary ancilla values) == "all recorded relations
    hold at x" for every x;
    the argument P is unchanged.

Everything is exact: integer / dyadic coefficients, lam in {1/2, 1, 2, 13/4, 10},
so the comparisons are ``==`` / ``>=`` on float64 without tolerance.

``predict()`` re-traces the library's decision tree only to *label* the case
(branch histogram, expected ancilla count used to keep unary slack small); it is
never used to judge.
"""
import functools
import math
import re
import warnings

import numpy as np
from hypothesis import strategies as st

from . import gen, ref
from .common import Sub, Violation, lib

ID = "C02"
RULE = ("Integer polynomial P over <= 4 labels (degree <= 3, coefficients -4..4) drawn from a mixture of shapes aimed at every "
        "branch of the constraint code (generic; sum(monomials)-1; non-negative part with negative offset; 1-m1-m2; m1-m2; "
        "+-v(a-bc); min=0; max=0; sign-indefinite; constants; never-zero), shifted/negated so that the aimed branch is also "
        "reached through lt/gt/ge; relation in 6; log_trick both ways; lam in {1/2,1,2,13/4,10}; bounds in {None,(lo,None),"
        "(None,hi),exact,loose integer,loose half-integer} always a valid enclosure of the reference truth table; P passed "
        "as dict/PUBO/PCBO/QUBO; random dyadic base objective already in the model; 1..3 constraints per model, optional "
        "switch to a copy() mid-way. Non-trivial case = at least one constraint that is neither warned unsatisfiable nor "
        "always true and has both satisfying and violating assignments (and was small enough to tabulate). Distinct = spec hash.")
ASSUMPTIONS = [
    "P is integer valued on every assignment (integer coefficients); non-integer P is outside the property",
    "bounds, when given, are a valid enclosure (lo <= min P, hi >= max P) computed from the reference truth table",
    "a constraint whose penalty needs more than 16 variables in total (labels + its ancillas) is counted too_big and only its "
    "naming / validity part is checked; the generator switches to log_trick=True when the predicted unary slack exceeds 12 ancillas",
    "a library warning containing 'cannot be satisfied' reduces the demand to F >= 0 (the statement's carve-out); whether the "
    "warning was justified is counted (warned_unsat_but_satisfiable), not judged",
    "is_solution_valid is compared with the relations recorded by this check's own history (a copy() carries them along)",
    "branch labels come from predict(), a re-trace of the library's decisions used for the histogram only; disagreement between "
    "predicted and observed ancilla count / warning is counted (branch_prediction_mismatch), not judged",
]

RELS = ["le", "lt", "ge", "gt", "ne", "eq"]
LAMS = [1, 0.5, 2, 3.25, 10]
BIG_M = 2 ** 40
BMODES = ["none", "lo", "hi", "exact", "loose_int", "loose_half"]
BOOL_ARGS = ["dict", "PUBO", "PCBO", "QUBO"]
SPIN_ARGS = ["dict", "PUSO", "PCSO", "QUSO"]
MAX_UNARY = 12
MAX_TABLE_VARS = 16
_ANC = re.compile(r"^__a(\d+)$")


# ---------------------------------------------------------------------------
# generator

def _mono(labels, max_deg):
    return gen.key_strategy(labels, max_deg, False, min_deg=1)


def _monos(labels, max_deg, lo, hi):
    return st.lists(_mono(labels, max_deg), min_size=lo, max_size=hi, unique_by=lambda k: frozenset(k))


def _zip(ks, cs, sign=1):
    return [[k, sign * c] for k, c in zip(ks, cs)]


def bool_shapes(labels, max_deg):
    """name -> strategy of term lists (boolean polynomials, integer coefficients)."""
    pos3 = st.lists(st.sampled_from([2, 1, 3]), min_size=4, max_size=4)
    pos4 = st.lists(st.sampled_from([2, 1, 3, 4]), min_size=4, max_size=4)

    def m(lo, hi):
        return _monos(labels, max_deg, lo, hi)

    shapes = {
        "generic": gen.poly_strategy(labels, 5, max_deg, gen.INT_COEFS, min_terms=1),
        # sum of monomials - 1  (le special 1)
        "sum1": m(1, 4).map(lambda ks: [[k, 1] for k in ks] + [[(), -1]]),
        # non-negative part with negative offset (le special 2 when log_trick is False)
        "nonneg_negoff": st.tuples(m(1, 3), pos3, st.integers(1, 6)).map(
            lambda t: _zip(t[0], t[1]) + [[(), -t[2]]]),
        # 1 - m1 - m2  (OR form)
        "or": m(2, 2).map(lambda ks: [[(), 1], [ks[0], -1], [ks[1], -1]]),
        # m1 - m2  (x <= y form)
        "xley": m(2, 2).map(lambda ks: [[ks[0], 1], [ks[1], -1]]),
        "min0": st.tuples(m(1, 4), pos4).map(lambda t: _zip(t[0], t[1])),
        "max0": st.tuples(m(1, 4), pos4).map(lambda t: _zip(t[0], t[1], -1)),
        # positive part - negative part (+ small offset): sign-indefinite
        "indef": st.tuples(m(2, 4), pos3, st.integers(1, 3), st.integers(-2, 2)).map(
            lambda t: _zip(t[0][:min(t[2], len(t[0]) - 1)], t[1]) +
            _zip(t[0][min(t[2], len(t[0]) - 1):], t[1][::-1], -1) + ([[(), t[3]]] if t[3] else [])),
        "const": st.sampled_from([0, 1, -1, 2, -2, 3, -3]).map(lambda c: [[(), c]] if c else []),
        # never zero: min0 + positive offset, or its negative
        "nonzero": st.tuples(m(1, 3), pos3, st.integers(1, 2), st.sampled_from([1, -1])).map(
            lambda t: _zip(t[0], t[1], t[3]) + [[(), t[3] * t[2]]]),
    }
    if len(labels) >= 3 and max_deg >= 2:
        # +-v (a - b c)  (eq AND form)
        shapes["and"] = st.tuples(st.permutations(labels), st.sampled_from([1, 2, 3, 4, -1, -2, -3])).map(
            lambda t: [[(t[0][0],), t[1]], [(t[0][1], t[0][2]), -t[1]]])
        # four terms c*(+-z +-x +-y +-xy) over three labels: the neighbourhood of z = OR(x, y) = x + y - xy and of
        # z = AND / XOR-like identities; only some sign patterns are gate identities
        shapes["zxyxy"] = st.tuples(st.permutations(labels), st.sampled_from([1, 2, -1]),
                                    st.lists(st.sampled_from([1, -1]), min_size=4, max_size=4)).map(
            lambda t: [[(t[0][0],), t[1] * t[2][0]], [(t[0][1],), t[1] * t[2][1]], [(t[0][2],), t[1] * t[2][2]],
                       [(t[0][1], t[0][2]), t[1] * t[2][3]]])
        # the look-alike of the AND form with equal signs: v (a + b c), which is NOT a = b c
        shapes["and_samesign"] = st.tuples(st.permutations(labels), st.sampled_from([1, 2, -1, -2])).map(
            lambda t: [[(t[0][0],), t[1]], [(t[0][1], t[0][2]), t[1]]])
    return shapes


BOOL_WEIGHTS = {"generic": 5, "sum1": 2, "nonneg_negoff": 3, "or": 2, "xley": 2, "and": 2, "and_samesign": 1, "zxyxy": 2, "min0": 2,
                "max0": 2, "indef": 3, "const": 2, "nonzero": 1}


def spin_shapes(labels, max_deg):
    """name -> strategy of term lists (spin polynomials, integer coefficients)."""
    c2 = st.lists(st.integers(1, 2), min_size=4, max_size=4)
    sg = st.lists(st.sampled_from([1, 1, -1]), min_size=4, max_size=4)

    def m(lo, hi, d=max_deg):
        return _monos(labels, d, lo, hi)

    def gap(ks, cs, sgs, k, sign=1):
        # sign * ( sum c_i (1 - s_i m_i) - k ):  the bracket is >= -k with even steps
        off = sum(cs[:len(ks)]) - k
        out = [[key, -sign * s * c] for key, c, s in zip(ks, cs, sgs)]
        return out + ([[(), sign * off]] if off else [])

    shapes = {
        "generic": gen.poly_strategy(labels, 4, max_deg, st.sampled_from([-3, -2, -1, 1, 2, 3]), min_terms=1),
        # boolean form 2 sum c_i x_i - k: le special 2 without bounds (single spins, all signs +)
        "gap1": st.tuples(m(1, 3, 1), c2, st.integers(1, 4)).map(lambda t: gap(t[0], t[1], [1, 1, 1, 1], t[2])),
        "gap": st.tuples(m(1, 3), c2, sg, st.integers(1, 4)).map(lambda t: gap(t[0], t[1], t[2], t[3])),
        "min0": st.tuples(m(1, 3), c2, sg).map(lambda t: gap(t[0], t[1], t[2], 0)),
        "max0": st.tuples(m(1, 3), c2, sg).map(lambda t: gap(t[0], t[1], t[2], 0, -1)),
        "indef": st.tuples(m(1, 4), st.lists(st.sampled_from([-2, -1, 1, 2]), min_size=4, max_size=4)).map(
            lambda t: _zip(t[0], t[1])),
        "const": st.sampled_from([0, 1, -1, 2, -2, 3, -3]).map(lambda c: [[(), c]] if c else []),
        # odd number of +-1 monomials plus an even offset: odd valued, never zero
        "odd": st.tuples(m(1, 3), st.lists(st.sampled_from([1, -1]), min_size=3, max_size=3),
                         st.sampled_from([-2, 0, 0, 2])).map(
            lambda t: _zip(t[0][:(1 if len(t[0]) < 3 else 3)], t[1]) + ([[(), t[2]]] if t[2] else [])),
    }
    if len(labels) >= 3 and max_deg >= 2:
        # +-v (1 - 2 z_a + z_b + z_c - z_b z_c) == +-4v (x_a - x_b x_c)   (eq AND form, integer coefficients)
        shapes["and"] = st.tuples(st.permutations(labels), st.sampled_from([1, 2, -1])).map(
            lambda t: [[(t[0][0],), -2 * t[1]], [(t[0][1],), t[1]], [(), t[1]], [(t[0][2],), t[1]],
                       [(t[0][1], t[0][2]), -t[1]]])
    return shapes


SPIN_WEIGHTS = {"generic": 5, "gap1": 2, "gap": 3, "min0": 2, "max0": 2, "indef": 3, "const": 2, "odd": 1, "and": 2}


def _bool_terms_to_spin(labels, terms):
    """Reference conversion x = (1 - z)/2 of a boolean term list (dyadic coefficients, still integer valued)."""
    pos = {}
    for i, l in enumerate(labels):
        pos[l] = i
    c = ref.bool_to_spin_canon(ref.canon(gen.terms_dict(terms), False))
    out = []
    for k, v in c.items():
        key = tuple(sorted(k, key=lambda l: pos[l]))
        out.append([key, v])
    out.sort(key=lambda kv: (len(kv[0]), [pos[l] for l in kv[0]]))
    return out


def _aim(terms, rel):
    """The shapes are written for ``S <= 0`` (resp. ``S == 0``); build P such that ``P rel 0`` hands S to that code."""
    if rel in ("le", "eq", "ne"):
        return terms
    if rel == "lt":           # lt: P + 1 -> le
        return terms + [[(), -1]]
    if rel == "ge":           # ge: -P -> le
        return [[k, -v] for k, v in terms]
    return [[k, -v] for k, v in terms] + [[(), 1]]     # gt: -P + 1 -> le


BOOL_IN_SPIN_WEIGHTS = {"generic": 1, "sum1": 3, "nonneg_negoff": 3, "or": 3, "xley": 3, "and": 2, "and_samesign": 1, "zxyxy": 1, "min0": 1, "max0": 1,
                        "indef": 1, "const": 1, "nonzero": 1}


def _shaped(labels, max_deg, spin):
    """strategy of (shape name, terms).  The first option is what Hypothesis' "simple" draws produce most often, so
    the shape that needs the largest conjunction of other choices comes first."""
    def order(names):
        first = [n for n in ("nonneg_negoff", "gap1", "sum1", "or", "xley") if n in names]
        return first + [n for n in sorted(names) if n not in first]

    if spin:
        shapes, weights = spin_shapes(labels, max_deg), SPIN_WEIGHTS
        bs = bool_shapes(labels, max_deg)
        options = [st.tuples(st.just(n), shapes[n]) for n in order(shapes) for _ in range(weights[n])]
        # integer valued, dyadic coefficients: the boolean shapes seen through x = (1-z)/2
        options += [st.tuples(st.just("bool:" + n), bs[n].map(lambda t: _bool_terms_to_spin(labels, t)))
                    for n in order(bs) for _ in range(BOOL_IN_SPIN_WEIGHTS[n])]
    else:
        shapes, weights = bool_shapes(labels, max_deg), BOOL_WEIGHTS
        options = [st.tuples(st.just(n), shapes[n]) for n in order(shapes) for _ in range(weights[n])]
    return st.one_of(options)


def _shuffle(terms, seed):
    """Deterministic permutation of the term list derived from a drawn integer (term order decides dict order inside
    the library, e.g. which key of a two-term polynomial comes first)."""
    idx = sorted(range(len(terms)), key=lambda i: (((seed + 1) * (2 * i + 1) * 2654435761) >> 11) & 0xffff)
    return [terms[i] for i in idx]


def _finish_constraint(d):
    name, terms = d["shaped"]
    terms = [[tuple(k), v] for k, v in terms]
    if d["aimed"]:
        terms = _aim(terms, d["rel"])
    if d.get("bigM") and len(d["labels2"]) >= 2:
        # big-M form: two huge terms that cancel on half of the assignments next to order-1 terms (all values are
        # integers, exact in binary floating point).  Recorded with lam = 0 (documented: the constraint is remembered
        # for is_solution_valid, no penalty is added), so only the validity clause is exercised - the penalty of such a
        # constraint would need 40 slack bits.
        l0, l1 = d["labels2"][0], d["labels2"][1]
        small = [t for t in terms if len(t[0]) <= 1 and t[0] not in ((l0,), (l1,))][:2]
        terms = [[(l0,), BIG_M], [(l1,), -BIG_M]] + small
        name = "bigM"
    out = {k: v for k, v in d.items() if k not in ("shaped", "perm", "labels2", "bigM")}
    out["shape"] = name
    out["terms"] = _shuffle(terms, d["perm"])
    return out


@functools.lru_cache(maxsize=None)
def _constraint_strategy(labels_t, spin, quad):
    labels = list(labels_t)
    if quad:
        args = ["QUSO"] if spin else ["QUBO"]
    else:
        args = SPIN_ARGS[:3] if spin else BOOL_ARGS[:3]
    return st.fixed_dictionaries({
        "rel": st.sampled_from(RELS),
        "shaped": _shaped(labels, 2 if quad else 3, spin),
        "aimed": st.sampled_from([True, True, True, False]),
        "perm": st.integers(0, 1 << 20),
        "arg": st.sampled_from(args),
        "lam": st.sampled_from(LAMS),
        # number type of the coefficients of P, of lam and of the bounds handed to the library (same values)
        "ctype": gen.CTYPE,
        "log_trick": st.booleans(),
        "bmode": st.sampled_from(BMODES),
        "bpar": st.tuples(st.integers(0, 3), st.integers(0, 3), st.integers(0, 2)).map(list),
        "abits": st.integers(0, (1 << 16) - 1),
        "with_anc": st.sampled_from([True, True, True, False]),
        # build the constraint on an empty model of the same type and merge it with the documented update(model)
        # (used only while the target has no ancillas of its own: equal names of different origin would be conflated)
        "via_update": st.sampled_from([False, False, False, False, True]),
        "bigM": gen.pick((False, 11), (True, 1)),
        "labels2": st.just(list(labels)),
    }).map(_finish_constraint)


def constraint_strategy(labels, spin):
    t = tuple(labels)
    return st.one_of(_constraint_strategy(t, spin, False), _constraint_strategy(t, spin, False),
                     _constraint_strategy(t, spin, False), _constraint_strategy(t, spin, True))


@functools.lru_cache(maxsize=None)
def _case_for_labels(labels_t, spin):
    labels = list(labels_t)
    return st.fixed_dictionaries({
        "labels": st.just(labels),
        "base": gen.poly_strategy(labels, 4, 3, gen.MIXED_COEFS, spin=spin),
        "cons": st.lists(constraint_strategy(labels, spin), min_size=1, max_size=4 if spin else 3),
        "copy_at": st.sampled_from([None, None, 1, 2, 3] if spin else [None, None, None, 1, 2]),
        # refresh() is documented to be harmless at any time: the constraint history must survive it
        "refresh_at": st.sampled_from([None, None, None, 1, 2]),
        "prelude": gen.pick((False, 9), (True, 1)),
    }).map(lambda s: _normalise(s, spin))


def case_strategy(spin):
    return gen.label_pool(False, 2, 4).flatmap(lambda labels: _case_for_labels(tuple(labels), spin))


def _normalise(spec, spin):
    """Keep unary slack small *by construction*: where the predicted number of ancillas of a constraint with
    log_trick=False exceeds MAX_UNARY, the constraint is generated with log_trick=True instead."""
    labels = list(spec["labels"])
    cons = []
    for c in spec["cons"]:
        c = dict(c)
        if not c["log_trick"]:
            terms = gen.terms_dict(c["terms"])
            tP = ref.table(terms, labels, spin)
            b = make_bounds(c["bmode"], c["bpar"], int(tP.min()), int(tP.max()))
            _, n_anc, _ = predict(c["rel"], bool_canon(terms, spin), False, b)
            if n_anc > MAX_UNARY:
                c["log_trick"] = True
        cons.append(c)
    out = dict(spec)
    out["cons"] = cons
    return out


# ---------------------------------------------------------------------------
# bounds (always a valid enclosure of [tmin, tmax])

def make_bounds(mode, par, tmin, tmax):
    a, b, c = par
    half_lo = 0.5 if c in (0, 1) else 0
    half_hi = 0.5 if c in (0, 2) else 0
    if mode == "none":
        return (None, None) if c == 2 else None
    if mode == "lo":
        return (tmin - a - (0.5 if c == 1 else 0), None)
    if mode == "hi":
        return (None, tmax + b + (0.5 if c == 1 else 0))
    if mode == "exact":
        return (tmin, tmax)
    if mode == "loose_int":
        if a == 0 and b == 0:
            a, b = (1, 0) if c == 0 else ((0, 1) if c == 1 else (1, 1))
        return (tmin - a, tmax + b)
    if mode == "loose_half":
        return (tmin - a - half_lo, tmax + b + half_hi)
    raise AssertionError(mode)


# ---------------------------------------------------------------------------
# classification only: which branch does the library take, how many ancillas

def bool_canon(terms, spin):
    c = ref.canon(terms, spin)
    return ref.spin_to_bool_canon(c) if spin else c


def _approx(cP):
    lo = hi = 0
    for k, v in cP.items():
        if not k:
            lo += v
            hi += v
        elif v < 0:
            lo += v
        else:
            hi += v
    return lo, hi


def _get_bounds(cP, bounds):
    if bounds is None or tuple(bounds) == (None, None):
        return _approx(cP)
    if bounds[0] is None:
        return _approx(cP)[0], bounds[1]
    if bounds[1] is None:
        return bounds[0], _approx(cP)[1]
    return bounds[0], bounds[1]


def _nbits(val, log):
    val = int(math.ceil(val))
    return val.bit_length() if log else val


def _neg(cP):
    return {k: -v for k, v in cP.items()}


def _shift(cP, d):
    return ref.poly_add(cP, {frozenset(): d})


def _is_and(cP):
    if cP.get(frozenset(), 0) or len(cP) != 2:
        return False
    (k0, v0), (k1, v1) = cP.items()
    return len(k0 | k1) == 3 and v0 == -v1 and {len(k0), len(k1)} == {1, 2}


def _p_eq(cP, bounds):
    if _is_and(cP):
        return "and", 0, None
    mn, mx = _get_bounds(cP, bounds)
    if mn == mx == 0:
        return "always", 0, "always"
    if mn > 0:
        return "unsat_pos", 0, "unsat"
    if mx < 0:
        return "unsat_neg", 0, "unsat"
    if mn == 0:
        return "min0", 0, None
    if mx == 0:
        return "max0", 0, None
    return "square", 0, None


def _p_le(cP, log, bounds):
    mn, mx = _get_bounds(cP, bounds)
    off = cP.get(frozenset(), 0)
    wo = {k: v for k, v in cP.items() if k}
    if off == -1 and all(v == 1 for v in wo.values()):
        return "special1", 0, None
    if not log and not (mn - off) and off <= 0 and mn:
        return "special2", _nbits(-off, False), None
    if off == 1 and len(wo) == 2 and set(wo.values()) == {-1}:
        return "or", 0, None
    if not off and len(cP) == 2 and set(cP.values()) == {1, -1}:
        return "xley", 0, None
    if mn > 0:
        return "unsat", 0, "unsat"
    if mx <= 0:
        return "always", 0, "always"
    if not mn:
        return "noslack_" + _p_eq(cP, (mn, mx))[0], 0, None
    n = _nbits(-mn, log)
    if n == 1 and len(cP) == 1 and not off and list(cP.values()) == [-1] and len(list(cP)[0]) == 2:
        return "slack_and", n, None
    return "slack_square", n, None


def _p_lt(cP, log, bounds):
    mn, mx = _get_bounds(cP, bounds)
    if mn >= 0:
        return "unsat", 0, "unsat"
    if mx < 0:
        return "always", 0, "always"
    b, n, _ = _p_le(_shift(cP, 1), log, (mn + 1, mx + 1))
    return b, n, None


def predict(rel, cP, log, bounds):
    """(branch label, number of ancillas, 'unsat' | 'always' | None warning) expected for ``P rel 0``."""
    if rel == "eq":
        return _p_eq(cP, bounds)
    if rel == "le":
        return _p_le(cP, log, bounds)
    if rel == "lt":
        return _p_lt(cP, log, bounds)
    mn, mx = _get_bounds(cP, bounds)
    if rel == "gt":
        return _p_lt(_neg(cP), log, (-mx, -mn))
    if rel == "ge":
        return _p_le(_neg(cP), log, (-mx, -mn))
    # ne
    if mn == mx == 0:
        return "unsat", 0, "unsat"
    if mn > 0 or mx < 0:
        return "always", 0, "always"
    if mn == 0:
        b, n, _ = _p_lt(_neg(cP), True, (-mx, -mn))
        return "min0>" + b, n, None
    if mx == 0:
        b, n, _ = _p_lt(cP, True, (mn, mx))
        return "max0>" + b, n, None
    return "sign", 1 + _nbits((mx + 1) - (mn - 1) - 1, log), None


def _anc_bucket(n):
    if n <= 2:
        return str(n)
    if n <= 4:
        return "3-4"
    if n <= 8:
        return "5-8"
    return "9+"


# ---------------------------------------------------------------------------
# the check

def _is_anc(l):
    return isinstance(l, str) and l.startswith("__a")


def _anc_index(l):
    m = _ANC.match(l)
    return int(m.group(1)) if m else None


def _fmt_x(order, r, spin):
    return ref.assignment(order, int(r), spin)


def run(spec, rec, spin):
    # whatever the library does to the process-wide warning filters stays in force for the rest of this case (as it
    # would in a user's script) and is undone afterwards
    with warnings.catch_warnings():
        _run_sequence(spec, rec, spin)


def _run_sequence(spec, rec, spin):
    import qubovert as qv

    model_kind = "PCSO" if spin else "PCBO"
    labels = list(spec["labels"])
    nx = len(labels)
    if spec.get("prelude"):
        # earlier in the same process the caller tried model descriptions that the library rejects (handled errors):
        # nothing of that may linger
        for bad in ({"type": model_kind, "terms": {}, "constraints": {"zz": [{}]}},
                    {"type": model_kind, "terms": {(labels[0],): 1}, "constraints": {"le": [{"not a key": 1}]}},
                    {"terms": {}}):
            try:
                qv.utils.create_from_info(bad)
            except Exception:          # noqa  rejected, as it should be
                pass
        rec.add("prelude_rejected_descriptions")
    M = lib(gen.build, qv, model_kind, spec["base"], what="build_base")
    seen = {l for l in M.variables if _is_anc(l)}
    recorded = []                      # (rel, raw terms dict) in the order added
    lib_filters = []                   # warning filters installed by the library during this case
    classes = set()
    nontrivial = False
    copy_at = spec.get("copy_at")
    left_behind = None
    rows = 1 << nx
    xs = [ref.assignment(labels, r, spin) for r in range(rows)]

    for idx, c in enumerate(spec["cons"]):
        if copy_at is not None and idx == copy_at:
            C = lib(M.copy, what="copy")
            if type(C) is not type(M):
                raise Violation("copy_type", "%s.copy() -> %s" % (type(M).__name__, type(C).__name__))
            left_behind = (M, list(recorded), {l for l in M.variables if _is_anc(l)})
            M = C
            classes.add("copied_midway")
        if spec.get("refresh_at") is not None and idx == spec.get("refresh_at"):
            before_refresh = ref.canon(dict(M), spin)
            lib(M.refresh, what="refresh")
            if ref.canon(dict(M), spin) != before_refresh:
                raise Violation("refresh_changed_terms", "%r -> %r" % (before_refresh, dict(M)))
            classes.add("refreshed_midway")

        rel, lam, log = c["rel"], c["lam"], bool(c["log_trick"])
        if c.get("shape") == "bigM":
            lam = 0
        terms_list = [[tuple(k), v] for k, v in c["terms"]]
        P_terms = gen.terms_dict(terms_list)
        P_labels = ref.labels_of(P_terms)
        tP = ref.table(P_terms, labels, spin)
        if not np.all(tP == np.round(tP)):
            rec.add("not_integer_valued")
            continue
        tmin, tmax = int(tP.min()), int(tP.max())
        bounds = make_bounds(c["bmode"], list(c["bpar"]), tmin, tmax)
        holds = np.array([ref.REL[rel](v) for v in tP], dtype=bool)

        arg_kind = c["arg"]
        if arg_kind in ("QUBO", "QUSO") and any(len(k) > 2 for k in P_terms):
            arg_kind = "PUSO" if spin else "PUBO"
        ctype = c.get("ctype") or "plain"
        P = lib(gen.build, qv, "dict" if arg_kind == "dict" else arg_kind, gen.wrap_terms(terms_list, ctype),
                what="build_argument")
        if ctype != "plain":
            classes.add("ctype=" + ctype)
        snap = gen.snapshot(P)

        before = ref.canon(dict(M), spin)
        kwargs = {"lam": gen.wrap_number(lam, ctype),
                  "bounds": bounds if bounds is None else tuple(gen.wrap_number(b, ctype) for b in bounds)}
        if rel != "eq":
            kwargs["log_trick"] = log
        via_update = bool(c.get("via_update")) and not seen and not M.num_ancillas
        # a validity query before the model changes (anything remembered from it must not survive the change)
        lib(M.is_solution_valid, dict(xs[0]), what="is_solution_valid(before)")
        with warnings.catch_warnings(record=True) as caught:
            # "always" in front of whatever the environment has installed (a 'default' or 'once' filter of the test
            # runner would swallow the second identical warning of a process), and in front of that the filters the
            # library itself installed earlier in this case
            warnings.simplefilter("always")
            for f in reversed(lib_filters):
                warnings.filters.insert(0, f)
            warnings._filters_mutated()
            filters_before = list(warnings.filters)
            G = None
            if via_update:
                G = type(M)()
                lib(getattr(G, "add_constraint_%s_zero" % rel), P, what="add_constraint_%s_zero" % rel, **kwargs)
                if any(k in M for k in dict.keys(G)):
                    G = None        # update() has dict semantics (overwrites coefficients of keys present on both sides)
            if G is not None:
                lib(M.update, G, what="update(model with constraints)")
                classes.add("via_update")
            else:
                lib(getattr(M, "add_constraint_%s_zero" % rel), P, what="add_constraint_%s_zero" % rel, **kwargs)
            filters_added = [f for f in warnings.filters if f not in filters_before]
        if filters_added:
            lib_filters[:0] = filters_added      # kept in force for the rest of this case
            classes.add("library_changed_warning_filters")
        msgs = [str(w.message) for w in caught if issubclass(w.category, qv.utils.QUBOVertWarning)]
        warned_unsat = any("cannot be satisfied" in m for m in msgs)
        warned_always = any("always satisfied" in m for m in msgs)
        after = ref.canon(dict(M), spin)
        F = ref.poly_add(after, before, -1)
        recorded.append((rel, P_terms))
        rec.add("constraint_calls")
        ctx = "constraint #%d: %s_zero(P=%r as %s, lam=%r, log_trick=%r, bounds=%r) on %s with base %r" % (
            idx, rel, P_terms, arg_kind, lam, log, bounds, model_kind, spec["base"])

        # -- the argument is unchanged
        if gen.snapshot(P) != snap:
            raise Violation("argument_mutated/%s" % rel, "%s; before=%r after=%r" % (ctx, snap, gen.snapshot(P)))

        # -- variables of F: labels of P and fresh ancillas
        varsF = []
        for k in F:
            for l in k:
                if l not in varsF:
                    varsF.append(l)
        anc = [l for l in varsF if _is_anc(l)]
        foreign = [l for l in varsF if not _is_anc(l) and l not in P_labels]
        if foreign:
            raise Violation("penalty_uses_foreign_variable/%s" % rel, "%s; F=%r uses %r" % (ctx, F, foreign))
        bad_names = [l for l in anc if _anc_index(l) is None]
        if bad_names:
            raise Violation("ancilla_name_malformed/%s" % rel, "%s; names %r" % (ctx, bad_names))
        anc.sort(key=_anc_index)
        reused = [l for l in anc if l in seen]
        if reused:
            raise Violation("ancilla_name_reused", "%s; reuses %r (present before: %r); F=%r" % (
                ctx, reused, sorted(seen), F))
        seen.update(anc)
        present = sorted({l for k in after for l in k if _is_anc(l)} | seen, key=lambda l: (_anc_index(l) is None, l))
        num_anc = M.num_ancillas
        over = [l for l in present if _anc_index(l) is None or not _anc_index(l) < num_anc]
        if over:
            raise Violation("ancilla_index_not_below_num_ancillas", "%s; num_ancillas=%r but %r present" % (
                ctx, num_anc, over))

        # -- classification (histogram only)
        branch, n_pred, w_pred = predict(rel, bool_canon(P_terms, spin), log, bounds)
        w_obs = "unsat" if warned_unsat else ("always" if warned_always else None)
        if n_pred != len(anc) or w_pred != w_obs:
            rec.add("branch_prediction_mismatch")
            rec.add("branch_prediction_mismatch/%s/%s" % (rel, branch))
        sat_some, sat_all = bool(holds.any()), bool(holds.all())
        cls = ["rel:" + rel, "%s/%s" % (rel, branch), "log_trick:%s" % log, "bounds:" + c["bmode"],
               "ancillas:" + _anc_bucket(len(anc)), "arg:" + arg_kind, "shape:" + c["shape"], "lam:%s" % lam,
               "%s/log_trick:%s" % (rel, log), "%s/bounds:%s" % (rel, c["bmode"])]
        if c.get("aimed"):
            cls.append("aimed")
        if isinstance(bounds, tuple) and any(isinstance(b, float) for b in bounds):
            cls.append("bounds_half_integer")
        if warned_unsat:
            cls.append("warned_unsat")
            if sat_some:
                rec.add("warned_unsat_but_satisfiable")
        if warned_always:
            cls.append("warned_always")
        if not sat_some:
            cls.append("truly_unsatisfiable")
        if sat_all:
            cls.append("truly_always_true")
        if idx > 0 and anc:
            cls.append("ancillas_in_later_constraint")
        classes.update(cls)

        # -- the penalty table over all labels and the new ancillas
        na = len(anc)
        if nx + na > MAX_TABLE_VARS:
            rec.add("too_big")
            classes.add("too_big")
        else:
            order = labels + anc
            tF = ref.table(ref.canon_to_terms(F), order, spin).reshape(1 << na, rows)
            rec.add("assignments_enumerated", rows << na)
            if tF.min() < 0:
                a_i, x_i = np.unravel_index(int(np.argmin(tF)), tF.shape)
                raise Violation("penalty_negative/%s" % rel, "%s; F=%r is %r at x=%r ancillas=%r" % (
                    ctx, F, float(tF[a_i, x_i]), _fmt_x(labels, x_i, spin), _fmt_x(anc, a_i, spin)))
            if not warned_unsat:
                mn = tF.min(axis=0)
                bad = np.nonzero(holds & (mn != 0))[0]
                if len(bad):
                    r = int(bad[0])
                    raise Violation("satisfied_but_penalised/%s" % rel,
                                    "%s; at x=%r P=%r satisfies the relation but min over ancillas of F is %r; F=%r" % (
                                        ctx, xs[r], float(tP[r]), float(mn[r]), F))
                bad = np.nonzero(~holds & (mn < lam))[0]
                if len(bad):
                    r = int(bad[0])
                    raise Violation("violated_but_underpenalised/%s" % rel,
                                    "%s; at x=%r P=%r violates the relation but min over ancillas of F is %r < lam; F=%r" % (
                                        ctx, xs[r], float(tP[r]), float(mn[r]), F))
                if sat_some and not sat_all and not warned_always:
                    nontrivial = True
                    classes.add("nontrivial_constraint")
                    classes.add("nontrivial/%s/%s" % (rel, branch))

        # -- is_solution_valid on every x (with arbitrary values for all ancillas present)
        abits = int(c["abits"])
        for r in range(rows):
            sol = dict(xs[r])
            if c.get("with_anc", True):
                for l in present:
                    i = _anc_index(l)
                    bit = (abits >> ((i if i is not None else 0) % 16)) & 1
                    sol[l] = (1 - 2 * bit) if spin else bit
            want = all(ref.REL[rl](ref.ref_value(pt, xs[r])) for rl, pt in recorded)
            got = lib(M.is_solution_valid, sol, what="is_solution_valid")
            if bool(got) != want:
                raise Violation("is_solution_valid_%s" % ("accepts_invalid" if got else "rejects_valid"),
                                "%s; is_solution_valid(%r) = %r, recorded relations %r give %r" % (
                                    ctx, sol, got, [(rl, pt, ref.ref_value(pt, xs[r])) for rl, pt in recorded], want))
        rec.add("validity_checks", rows)
        # a solution that only covers the variables occurring in the model's terms (what a solver returns): a recorded
        # constraint that is true on every assignment needs none of its variables, so its missing labels must not matter
        in_terms = {l for k in after for l in k}
        missing = [l for l in labels if l not in in_terms]
        if missing:
            always = []
            for rl, pt in recorded:
                t_ = ref.table(pt, labels, spin)
                always.append(all(ref.REL[rl](v) for v in t_))
            if all(a for (rl, pt), a in zip(recorded, always) if any(l in missing for l in ref.labels_of(pt))):
                r = abits % rows
                sol = {l: v for l, v in xs[r].items() if l in in_terms}
                want = all(ref.REL[rl](ref.ref_value(pt, xs[r])) for (rl, pt), a in zip(recorded, always) if not a)
                got = lib(M.is_solution_valid, sol, what="is_solution_valid(solution over the model's variables)")
                if bool(got) != want:
                    raise Violation("is_solution_valid_partial_%s" % ("accepts_invalid" if got else "rejects_valid"),
                                    "%s; is_solution_valid(%r) = %r (labels %r occur in no term and only in constraints "
                                    "that always hold), expected %r" % (ctx, sol, got, missing, want))
                rec.add("validity_checks_partial_solution")

    # the model that was copied mid-way knows nothing of what happened to its copy afterwards
    if left_behind is not None:
        O, o_recorded, o_anc = left_behind
        for r in range(rows):
            sol = dict(xs[r])
            for l in o_anc:
                sol[l] = 1
            want = all(ref.REL[rl](ref.ref_value(pt, xs[r])) for rl, pt in o_recorded)
            got = lib(O.is_solution_valid, sol, what="is_solution_valid(original after copy)")
            if bool(got) != want:
                raise Violation("original_affected_by_constraints_on_copy",
                                "original of the mid-way copy: is_solution_valid(%r) = %r, its own relations %r give %r" % (
                                    sol, got, o_recorded, want))
        if len(O.constraints.get("eq", [])) + sum(len(v) for k, v in O.constraints.items() if k != "eq") != len(o_recorded):
            raise Violation("original_constraints_changed_by_copy",
                            "original recorded %d relations before the copy, now reports %r" % (len(o_recorded), O.constraints))

    classes.add("constraints:%d" % len(spec["cons"]))
    rec.case(spec, nontrivial, sorted(classes))


def run_case(spec, rec):
    run(spec, rec, False)


def subchecks(tier):
    return [Sub("constraints", case_strategy(False), run_case, quick=16000, thorough=160000)]
