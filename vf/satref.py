"""Boolean expression trees over the eight sat gates: plain-data representation,
python-bool reference semantics, reference multilinear polynomial, Hypothesis
strategies.  Shared by C06 and C07.  Never calls qubovert.

A tree node is a sequence (tuple or list):

    ("v", label)                      a boolean variable
    ("m", index)                      (C07 only) model leaf ``models[index]``
    (GATE, child, child, ...)         GATE in GATES, at least one child;
                                      BUFFER / NOT exactly one
"""
from hypothesis import strategies as st

from . import ref

GATES = ("BUFFER", "NOT", "AND", "NAND", "OR", "NOR", "XOR", "XNOR")
UNARY = ("BUFFER", "NOT")
NARY = ("AND", "NAND", "OR", "NOR", "XOR", "XNOR")


def gate_value(g, vals):
    """Reference truth function of a gate on python bools (XOR/XNOR = parity)."""
    vals = [bool(v) for v in vals]
    if g == "BUFFER":
        return vals[0]
    if g == "NOT":
        return not vals[0]
    if g == "AND":
        return all(vals)
    if g == "NAND":
        return not all(vals)
    if g == "OR":
        return any(vals)
    if g == "NOR":
        return not any(vals)
    if g == "XOR":
        return sum(vals) % 2 == 1
    if g == "XNOR":
        return sum(vals) % 2 == 0
    raise AssertionError(g)


def eval_bool(node, assignment, models=None):
    tag = node[0]
    if tag == "v":
        return bool(assignment[node[1]])
    if tag == "m":
        return eval_bool(models[node[1]]["tree"], assignment)
    return gate_value(tag, [eval_bool(c, assignment, models) for c in node[1:]])


def tree_labels(node, models=None, out=None):
    """Labels in first-appearance order."""
    if out is None:
        out = []
    tag = node[0]
    if tag == "v":
        if not any(type(l) is type(node[1]) and l == node[1] for l in out):
            out.append(node[1])
    elif tag == "m":
        tree_labels(models[node[1]]["tree"], None, out)
    else:
        for c in node[1:]:
            tree_labels(c, models, out)
    return out


def depth(node):
    if node[0] in ("v", "m"):
        return 0
    return 1 + max(depth(c) for c in node[1:])


def size(node):
    if node[0] in ("v", "m"):
        return 1
    return 1 + sum(size(c) for c in node[1:])


def max_arity(node):
    if node[0] in ("v", "m"):
        return 0
    return max([len(node) - 1] + [max_arity(c) for c in node[1:]])


def gates_of(node, out=None):
    if out is None:
        out = set()
    if node[0] not in ("v", "m"):
        out.add(node[0])
        for c in node[1:]:
            gates_of(c, out)
    return out


def model_refs(node, out=None):
    if out is None:
        out = []
    if node[0] == "m":
        out.append(node[1])
    elif node[0] != "v":
        for c in node[1:]:
            model_refs(c, out)
    return out


ONE = {frozenset(): 1}


def ref_poly(node):
    """Reference multilinear polynomial (``ref.canon`` form) of a tree without
    model leaves, by the textbook identities on {0,1}."""
    tag = node[0]
    if tag == "v":
        return {frozenset([node[1]]): 1}
    ps = [ref_poly(c) for c in node[1:]]
    if tag == "BUFFER":
        return ps[0]
    if tag == "NOT":
        return ref.poly_add(ONE, ps[0], -1)
    if tag in ("AND", "NAND"):
        acc = ps[0]
        for p in ps[1:]:
            acc = ref.poly_mul(acc, p, False)
    elif tag in ("OR", "NOR"):
        acc = ps[0]
        for p in ps[1:]:       # x + v - x v
            acc = ref.poly_add(ref.poly_add(acc, p), ref.poly_mul(acc, p, False), -1)
    elif tag in ("XOR", "XNOR"):
        acc = ps[0]
        for p in ps[1:]:       # x + v - 2 x v
            acc = ref.poly_add(ref.poly_add(acc, p), ref.poly_mul(acc, p, False), -2)
    else:
        raise AssertionError(tag)
    if tag in ("NAND", "NOR", "XNOR"):
        acc = ref.poly_add(ONE, acc, -1)
    return acc


def canon_to_dict(c, pool, rev=False):
    """Deterministic raw dict (tuple keys) of a canonical polynomial: labels inside
    a key in pool order (reversed if rev), keys by (degree, positions)."""
    def pos(l):
        for i, p in enumerate(pool):
            if type(p) is type(l) and p == l:
                return i
        raise AssertionError("label %r not in pool %r" % (l, pool))
    rows = []
    for k, v in c.items():
        ps = sorted(pos(l) for l in k)
        rows.append((len(ps), ps, v))
    rows.sort(key=lambda r: (r[0], r[1]))
    out = {}
    for _, ps, v in rows:
        key = tuple(pool[i] for i in (reversed(ps) if rev else ps))
        out[key] = v
    return out


def bool_rows(node, order, models=None):
    """[python-bool value of the tree] for all 2^n assignments of ``order``
    (row r: bit i of r is the value of order[i], the convention of ref.table)."""
    return [eval_bool(node, a, models) for _, a in ref.all_assignments(order, False)]


# ---------------------------------------------------------------------------
# strategies (no flatmap: trees are drawn over label *indices* and resolved to
# the labels of the drawn pool with ``resolve``; 60 is divisible by 1..6 so
# ``index % len(pool)`` is uniform)

IDX = st.integers(0, 59)
VAR_LEAF = st.tuples(st.just("v"), IDX)
MODEL_LEAF = st.tuples(st.just("m"), IDX)


def tree_strategy(leaf, depth, max_arity=4, leaf_weight=1, sub_weight=1, unary_div=2):
    """Trees over the eight gates whose depth is exactly ``depth`` (>= 1; the
    deepest path runs through a randomly placed child, the other children are
    leaves or shallower trees); n-ary gates have 1..max_arity operands (the middle
    arities twice as likely) and each of them is ``unary_div`` times as likely as
    BUFFER / NOT; ``leaf`` is a strategy of leaf nodes."""
    gates = list(UNARY) + list(NARY) * unary_div

    def build(g, deep, rest, at):
        if g in UNARY:
            return (g, deep)
        rest = list(rest)
        rest.insert(at % (len(rest) + 1), deep)
        return (g,) + tuple(rest)

    def gate(child, deep):
        # explicit, uniform number of further operands (st.lists is biased towards short lists)
        rest = st.one_of([st.tuples(*([child] * k)) for k in list(range(max_arity)) + list(range(1, max_arity - 1))])
        return st.builds(build, st.sampled_from(gates), deep, rest, st.integers(0, 11))

    def exact(d):
        if d == 0:
            return leaf
        return gate(any_upto(d - 1), exact(d - 1))

    cache = {}

    def any_upto(d):
        # a leaf or a tree of depth <= d
        if d not in cache:
            if d == 0:
                cache[d] = leaf
            else:
                sub = gate(any_upto(d - 1), any_upto(d - 1))
                cache[d] = st.one_of([leaf] * leaf_weight + [sub] * sub_weight)
        return cache[d]
    return exact(depth)


def resolve(node, labels, n_models=0):
    """Index tree -> tree over the labels of the pool / model references."""
    tag = node[0]
    if tag == "v" or (tag == "m" and not n_models):
        return ("v", labels[node[1] % len(labels)])
    if tag == "m":
        return ("m", node[1] % n_models)
    return (tag,) + tuple(resolve(c, labels, n_models) for c in node[1:])
