"""C17 — the C annealing kernels are memory-safe on every valid call.

Hypothesis (un-sanitised parent) generates *sequences* of annealer calls skewed
to shapes that move indices and buffer sizes; each sequence is executed in a
persistent child process that imports an ASan+UBSan build of the extension
(clang, -fsanitize=address,undefined, -fno-sanitize-recover).  A sanitizer
report / abnormal death of the child fails the example; Hypothesis shrinks the
sequence against fresh children.  The child also applies C11's oracle to every
result; an oracle failure counts for C17 only when the same call passes in a
fresh process on its own (i.e. an earlier call influenced a later one).
"""
import os
import re
import select
import subprocess
import sys
import tempfile

from hypothesis import strategies as st

from . import anneal_gen as ag
from . import build, gen
from .common import ROOT, Sub, Violation, jdumps, jloads, HarnessError

ID = "C17"
CGF = False   # the code under test runs in the sanitised worker process; nothing for python coverage to guide
RULE = ("Hypothesis-generated sequences of 1..6 calls of anneal_qubo/quso/pubo/puso executed in one persistent process "
        "against an ASan+UBSan build of the extension compiled from the working tree: single variable, isolated variables, "
        "Matrix label gaps, degree up to 8, up to 40 terms (many on one spin: realloc growth), no couplings, only an offset, "
        "stale models whose terms cancelled, a Matrix label of 2.6 million (sub-check huge), chains of every size around the powers of two up to 1025 (sub-check sizes), empty / zero-temperature schedules, num_anneals 1..50, with/without initial state, "
        "both visiting orders. Oracle: no sanitizer report, child alive, C11's result oracle per call, identical outcomes of seeded calls under two heap fill patterns (reads of uninitialised memory). "
        "Non-trivial = the sequence reaches the C entry points at least twice with different (function, #variables, #terms) shapes. "
        "Distinct = distinct spec hash.")
ASSUMPTIONS = [
    "clang 14 ASan+UBSan instrumented build of the five C sources, loaded into the stock CPython via LD_PRELOAD of the ASan runtime; "
    "detect_leaks=0 (CPython itself leaks)",
    "int overflow of num_anneals*len_state (needs > 8 GB) is not reachable and not generated",
    "a timeout of the child (60 s) is counted as inconclusive, not as a violation",
]

_STATE = {"asan_path": None, "runtime": None, "worker": None, "worker2": None}
_C_FILES = ("_canneal.c", "anneal_quso.c", "anneal_puso.c", "random.c", "pcg_basic.c")


def prepare(tier):
    import atexit
    import shutil
    _STATE["asan_path"] = build.build("asan", tag="C17-asan-%d" % os.getpid())
    atexit.register(shutil.rmtree, _STATE["asan_path"], True)
    _STATE["runtime"] = build.asan_runtime()


class WorkerDied(Exception):
    def __init__(self, rc, report):
        super().__init__("worker died rc=%r" % (rc,))
        self.rc, self.report = rc, report


class Worker:
    def __init__(self, build_path, sanitised=True, fill=0xbe):
        env = dict(os.environ)
        if sanitised:
            env["LD_PRELOAD"] = _STATE["runtime"] or build.asan_runtime()
            env["ASAN_OPTIONS"] = ("detect_leaks=0:exitcode=99:abort_on_error=0:allocator_may_return_null=1:"
                                   "max_malloc_fill_size=268435456:malloc_fill_byte=%d" % fill)
            env["UBSAN_OPTIONS"] = "print_stacktrace=1:halt_on_error=1:exitcode=98"
        env["PYTHONHASHSEED"] = "0"
        env.pop("PYTHONPATH", None)
        self.err = tempfile.TemporaryFile(mode="w+b")
        self.p = subprocess.Popen(
            [sys.executable, "-W", "ignore", os.path.join(ROOT, "vf", "asan_worker.py"), build_path],
            stdin=subprocess.PIPE, stdout=subprocess.PIPE, stderr=self.err, env=env, cwd=ROOT)
        hello = self._readline(120)
        if hello is None:
            raise HarnessError("sanitised worker did not start: %s" % self.stderr_text()[-2000:])
        h = jloads(hello)
        if not h.get("ready"):
            raise HarnessError("worker not ready: %r" % (h,))

    def _readline(self, timeout):
        fd = self.p.stdout.fileno()
        buf = b""
        while True:
            r, _, _ = select.select([fd], [], [], timeout)
            if not r:
                return "TIMEOUT"
            chunk = os.read(fd, 65536)
            if not chunk:
                return None
            buf += chunk
            if buf.endswith(b"\n"):
                return buf.decode()

    def stderr_text(self):
        self.err.flush()
        self.err.seek(0)
        return self.err.read().decode(errors="replace")

    def call(self, calls, timeout=60, digest=False):
        try:
            self.p.stdin.write((jdumps({"calls": calls, "digest": digest}) + "\n").encode())
            self.p.stdin.flush()
        except (BrokenPipeError, OSError):
            rc = self.p.wait()
            raise WorkerDied(rc, self.stderr_text())
        line = self._readline(timeout)
        if line == "TIMEOUT":
            self.kill()
            return "TIMEOUT"
        if line is None:
            rc = self.p.wait()
            raise WorkerDied(rc, self.stderr_text())
        return jloads(line)["results"]

    def kill(self):
        try:
            self.p.kill()
            self.p.wait()
        except Exception:
            pass

    def close(self):
        try:
            self.p.stdin.close()
            self.p.wait(timeout=10)
        except Exception:
            self.kill()


def _worker(fresh=False, which="worker"):
    if fresh:
        return Worker(_STATE["asan_path"])
    w = _STATE.get(which)
    if w is None or w.p.poll() is not None:
        # the second worker fills fresh heap memory with a different byte pattern, so a result
        # that depends on uninitialised memory differs between the two (ASan alone cannot see
        # reads of uninitialised memory)
        w = Worker(_STATE["asan_path"], fill=0xbe if which == "worker" else 0x5a)
        _STATE[which] = w
    return w


def sanitizer_signature(report, rc):
    kind = None
    m = re.search(r"ERROR: AddressSanitizer: ([\w-]+)", report)
    if m:
        kind = "asan/" + m.group(1)
    elif "runtime error:" in report:
        m = re.search(r"runtime error: ([^\n]{0,60})", report)
        what = re.sub(r"[^a-z ]", "", m.group(1).lower()).strip().replace(" ", "_")[:40] if m else "ub"
        kind = "ubsan/" + what
    else:
        kind = "crash/rc=%s" % rc
    where = "?"
    for fm in re.finditer(r"#\d+ 0x[0-9a-f]+ in (\w+) [^\n]*?([\w.]+\.c):(\d+)", report):
        if fm.group(2) in _C_FILES:
            where = "%s:%s" % (fm.group(2), fm.group(1))
            break
    else:
        m = re.search(r"([\w.]+\.c):(\d+):\d+: runtime error", report)
        if m:
            where = m.group(1)
    return "%s@%s" % (kind, where)


def shape(spec):
    return (spec["func"], len(spec["labels"]), len(spec["terms"]), bool(spec.get("stale")))


def run_case(spec, rec):
    calls = list(spec["calls"])
    w = _worker()
    try:
        results = w.call(calls, digest=True)
    except WorkerDied as d:
        _STATE["worker"] = None
        sig = sanitizer_signature(d.report, d.rc)
        lines = [l for l in d.report.splitlines() if l.strip()]
        raise Violation(sig, "child exited rc=%r\n%s" % (d.rc, "\n".join(lines[:40])))
    if results == "TIMEOUT":
        _STATE["worker"] = None
        rec.add("timeout_inconclusive")
        return
    # differential run under a different heap fill pattern: calls with an integer seed are
    # deterministic, so their outcome (results, or the error they end in) must not change
    if any(c["seed"] is not None for c in calls):
        w2 = _worker(which="worker2")
        try:
            results2 = w2.call(calls, digest=True)
        except WorkerDied as d:
            _STATE["worker2"] = None
            raise Violation(sanitizer_signature(d.report, d.rc), "child (fill 0x5a) exited rc=%r\n%s" % (d.rc, d.report[:3000]))
        if results2 == "TIMEOUT":
            _STATE["worker2"] = None
            rec.add("timeout_inconclusive")
        else:
            for i, (c, r1, r2) in enumerate(zip(calls, results, results2)):
                if c["seed"] is not None and r1 != r2:
                    raise Violation("uninitialised_memory_dependence/%s" % c["func"],
                                    "call %d (seed=%r) gives different outcomes when fresh heap memory is filled with 0xbe vs 0x5a: "
                                    "%r vs %r" % (i, c["seed"], r1, r2))
            rec.add("fill_differential_sequences")
    # "later calls are unaffected by earlier ones": the same seeded call repeated inside one sequence (one process)
    # must give the same results every time
    from .common import jdumps
    first_digest = {}
    for i, (c, r) in enumerate(zip(calls, results)):
        if c["seed"] is None or not (r and "ok" in r):
            continue
        key = jdumps(c, sort_keys=True)
        if key in first_digest and first_digest[key][1] != r["ok"]:
            raise Violation("later_call_affected_by_earlier/same_seeded_call_differs/%s" % c["func"],
                            "calls %d and %d of the sequence are identical (seed=%r) but their results differ" % (
                                first_digest[key][0], i, c["seed"]))
        first_digest.setdefault(key, (i, r["ok"]))
    for i, r in enumerate(results):
        if r is None or "ok" in r:
            continue
        if r["kind"].startswith("harness/"):
            raise HarnessError("worker harness error: %s" % r["detail"])
        # C11-oracle failure inside the sequence: C17's business only if the
        # call is fine on its own in a fresh process (history dependence)
        fw = _worker(fresh=True)
        try:
            alone = fw.call([calls[i]])
        except WorkerDied as d:
            raise Violation(sanitizer_signature(d.report, d.rc), "single call died: %s" % d.report[:2000])
        finally:
            fw.close()
        if alone != "TIMEOUT" and (alone[0] is None or "ok" in alone[0]):
            raise Violation("later_call_affected_by_earlier/" + r["kind"],
                            "call %d fails after its predecessors but passes alone: %s" % (i, r["detail"]))
        rec.add("c11_business/" + r["kind"])
    shapes = {shape(c) for c in calls if c["num_anneals"] >= 1}
    classes = set()
    for c in calls:
        f, model_n, nt, st_ = shape(c)
        classes.add(f)
        classes.add("kind=" + c["kind"])
        if st_:
            classes.add("stale")
        if nt == 0:
            classes.add("no_terms")
        if nt >= 15:
            classes.add("many_terms")
        if any(len(k) >= 6 for k, _ in c["terms"]):
            classes.add("degree>=6")
        if c["init"] is not None:
            classes.add("init")
        if not isinstance(c["schedule"], str):
            classes.add("explicit_schedule")
            if not c["schedule"][1]:
                classes.add("empty_schedule")
        if c["num_anneals"] >= 20:
            classes.add("num_anneals>=20")
        if max([l for l in c["labels"] if isinstance(l, int)] or [0]) >= 100000:
            classes.add("huge_matrix_label")
    rec.case(spec, len(shapes) >= 2, sorted(classes))


# --------------------------------------------------------------------------
# generator

BIG_INT_POOLS = [list(range(10)), [0, 2, 3, 5, 7, 8, 11, 12, 13, 17], [4, 1, 9, 6, 2, 12, 3, 8, 10, 5]]


def _stress_call():
    """Calls skewed towards index / buffer stressing shapes."""
    coefs = st.one_of(gen.MIXED_COEFS, gen.FLOAT_COEFS)
    na = gen.pick((1, 3), (2, 2), (5, 2), (20, 1), (50, 1))
    base = ag.call_spec(coefs=coefs, max_deg=8, max_terms=12, num_anneals=na)

    def big(fk):
        func, kind = fk
        spin, _ = ag.FUNCS[func]
        quad = func in ag.QUAD_FUNCS or gen.is_quad(kind)

        def for_labels(labels):
            # many terms sharing the first label (subgraph realloc growth)
            first = labels[0]
            key = gen.key_strategy(labels[1:], 2 if quad else 7, False).map(
                lambda k: (first,) + tuple(k) if (not quad or len(k) <= 1) else tuple(k))
            other = gen.key_strategy(labels, 2 if quad else 8, False)
            terms = st.lists(st.tuples(st.one_of(key, key, other), coefs).map(list), min_size=8, max_size=40).map(
                lambda t: ag._dedupe(t, spin))
            return st.fixed_dictionaries({
                "func": st.just(func), "kind": st.just(kind), "labels": st.just(labels),
                "terms": terms, "stale": st.just([]),
                "num_anneals": na, "anneal_duration": gen.pick((1, 1), (2, 1), (5, 1)),
                "schedule": ag.schedule_strategy(),
                "temperature_range": st.none(),
                "init": st.one_of(st.none(), st.lists(st.integers(0, 1), min_size=1, max_size=8)),
                "in_order": st.booleans(), "seed": st.one_of(st.none(), st.integers(0, 2 ** 31 - 1)),
            })
        pools = BIG_INT_POOLS if (gen.is_matrix(kind)) else BIG_INT_POOLS + [["v%d" % i for i in range(10)]]
        return st.sampled_from(pools).flatmap(
            lambda p: st.integers(3, len(p)).map(lambda n: p[:n])).flatmap(for_labels)

    pairs = [(f, k) for f in ag.FUNCS for k in ag.FUNCS[f][1]]

    # very many spins through one large Matrix label (buffers far beyond any stack frame); one anneal,
    # at most one sweep, so the cost stays in building the result
    def huge(fk_top):
        (func, kind), top, c, sched = fk_top
        return {"func": func, "kind": kind, "labels": [0, top], "terms": [[(0, top), c], [(top,), -c]], "stale": [],
                "num_anneals": 1, "anneal_duration": 1, "schedule": ("explicit", sched), "temperature_range": None,
                "init": None, "in_order": True, "seed": 7}
    mpairs = [p for p in pairs if gen.is_matrix(p[1])]
    hugecall = st.tuples(st.sampled_from(mpairs), st.sampled_from([2600000]), st.sampled_from([1, -2, 0.5]),
                         st.sampled_from([[], [1.0]])).map(huge)
    normal = st.one_of(base, base, st.sampled_from(pairs).flatmap(big))
    return normal, hugecall


def sequence():
    return st.fixed_dictionaries({"calls": st.lists(_stress_call()[0], min_size=1, max_size=6)})


def huge_cases(tier):
    """One call with 2.6 million spins (a single large Matrix label) followed by a small call in the same
    process.  Enumerated: the polynomial kernel (most buffers) in the quick tier, every Matrix path in thorough."""
    def call(func, kind, sched):
        top = 2600000
        return {"func": func, "kind": kind, "labels": [0, top], "terms": [[(0, top), 1], [(top,), -2]], "stale": [],
                "num_anneals": 1, "anneal_duration": 1, "schedule": ("explicit", sched), "temperature_range": None,
                "init": None, "in_order": True, "seed": 7}
    small = {"func": "anneal_puso", "kind": "dict", "labels": ["a", "b"], "terms": [[("a", "b"), -1], [("a",), 0.5]],
             "stale": [], "num_anneals": 2, "anneal_duration": 2, "schedule": "linear", "temperature_range": None,
             "init": None, "in_order": False, "seed": 3}
    quick = [("anneal_puso", "PUSOMatrix", [1.0]), ("anneal_pubo", "PUBOMatrix", [])]
    full = quick + [("anneal_puso", "QUSOMatrix", []), ("anneal_quso", "QUSOMatrix", [1.0]),
                    ("anneal_qubo", "QUBOMatrix", []), ("anneal_pubo", "QUBOMatrix", [1.0])]
    for f, k, sc in (quick if tier == "quick" else full):
        yield {"calls": [call(f, k, sc), small]}


size_cases = ag.size_cases


def repeat_cases(tier):
    """The same seeded call twice in one sequence: 10^5 spins visited in random order (so that the generator's rarely
    taken paths - rejection in the bounded draw has probability ~1e-5 per draw - are certain to be taken), through both
    kernels, and a small model as a control."""
    def chain(func, kind, n, seed):
        terms = [[(i, i + 1), 1 if i % 2 else -2] for i in range(n - 1)] + [[(0,), 0.5]]
        return {"func": func, "kind": kind, "labels": list(range(n)), "terms": terms, "stale": [],
                "num_anneals": 1, "anneal_duration": 2, "schedule": ("explicit", [1.0, 0.5]), "temperature_range": None,
                "init": None, "in_order": False, "seed": seed}
    for func, kind in (("anneal_quso", "QUSOMatrix"), ("anneal_puso", "PUSOMatrix")):
        big = chain(func, kind, 100000, 5)
        small = chain(func, kind, 7, 9)
        yield {"calls": [small, big, small, big]}


def subchecks(tier):
    return [Sub("sequence", sequence(), run_case, quick=3600, thorough=80000),
            Sub("sizes", None, run_case, quick=0, thorough=0, enumerate=size_cases),
            Sub("repeat", None, run_case, quick=0, thorough=0, enumerate=repeat_cases, max_shards=2),
            # expensive (tens of seconds per case under ASan): a handful of cases only
            Sub("huge", None, run_case, quick=0, thorough=0, enumerate=huge_cases, max_shards=6)]


# --------------------------------------------------------------------------
# measured C line coverage (gcov build), reported in the evidence

def extra_evidence(tier, merged):
    try:
        return {"c_line_coverage": _gcov_pass(300 if tier == "quick" else 3000)}
    except Exception as e:  # coverage is informational only
        return {"c_line_coverage": {"error": repr(e)[:300]}}


def _gcov_pass(n):
    import hypothesis
    from hypothesis import given, settings, HealthCheck, Phase, Verbosity
    path = build.build("gcov", tag="C17-gcov-%d" % os.getpid())
    w = Worker(path, sanitised=False)
    count = {"n": 0}

    @hypothesis.seed(12345)
    @settings(max_examples=n, database=None, deadline=None, suppress_health_check=list(HealthCheck),
              phases=[Phase.generate], verbosity=Verbosity.quiet)
    @given(sequence())
    def drive(spec):
        w.call(list(spec["calls"]))
        count["n"] += 1
    drive()
    w.close()
    simdir = os.path.join(path, "qubovert", "sim")
    out = {}
    srcs = [os.path.join(path, s) for s in build.C_SOURCES]
    r = subprocess.run(["gcov", "-b", "-o", simdir] + srcs, capture_output=True, text=True, cwd=simdir)
    cur = None
    for line in r.stdout.splitlines():
        m = re.match(r"File '(.*)'", line)
        if m:
            cur = os.path.basename(m.group(1))
            continue
        m = re.match(r"Lines executed:([\d.]+)% of (\d+)", line)
        if m and cur and cur.endswith(".c") and cur in _C_FILES:
            out[cur] = {"lines_pct": float(m.group(1)), "lines": int(m.group(2))}
    # list the lines never executed, so the reader can see what they are
    missed = {}
    for f in os.listdir(simdir):
        if f.endswith(".c.gcov") and f[:-5] in _C_FILES:
            for l in open(os.path.join(simdir, f), errors="replace"):
                if l.lstrip().startswith("#####"):
                    missed.setdefault(f[:-5], []).append(l.split(":", 2)[1].strip())
    import shutil
    shutil.rmtree(path, ignore_errors=True)
    return {"sequences": count["n"], "files": out, "unexecuted_lines": missed}
