"""C07 — the sat expression builders compute their truth functions and leave
their inputs alone.

One case = an expression tree over BUFFER, NOT, AND, NAND, OR, NOR, XOR, XNOR
whose leaves are labels or boolean models that are {0,1}-valued by construction.
The tree is evaluated bottom-up with ``qubovert.sat``; the oracle is

    table(dict(result)) == python-bool evaluation of the tree on all 2^n assignments
    every operand handed to a gate (leaf models and intermediate results) has the
    same snapshot after the gate call, at the end of the evaluation, and after the
    returned root object has been modified in place (aliasing)
"""
import warnings

from hypothesis import strategies as st

from . import gen, ref, satref
from .common import Sub, Violation, lib

ID = "C07"
RULE = ("Hypothesis-generated trees over the 8 gates, depth 1..4, 1..4 operands per gate (BUFFER/NOT exactly one), <= 6 distinct "
        "labels from the shared label pools (repeats inside a gate allowed), <= 40 nodes; leaves are labels or references to 0..3 "
        "model objects (PUBO, PCBO, dict; PUBOMatrix when all labels are non-negative ints; QUBO / QUBOMatrix only when the pool "
        "has <= 2 labels) whose polynomial is the reference polynomial of a label or of one gate over labels, so {0,1}-valued by "
        "construction; the same model object may be used at several leaves. Non-trivial = depth >= 2 and some gate with >= 3 "
        "operands. Distinct = distinct spec hash.")
ASSUMPTIONS = [
    "model leaves are built from the reference polynomial of a small tree and re-checked by truth table before use",
    "QUBO / QUBOMatrix leaves only in trees over <= 2 variables (term-wise degree > 2 on quadratic types is unspecified)",
    "matrix leaves only when every label of the pool is a non-negative int",
    "'inputs not modified' is judged with gen.snapshot of every dict/model operand of every gate call",
    "gates with zero operands are out of scope",
]

POSTS = ["iadd", "isub", "imul", "item", "clear"]
MAX_NODES = 40


# ---------------------------------------------------------------------------
# strategies

def _kinds_for(labels):
    kinds = ["PUBO", "PCBO", "dict"]
    ints = all(isinstance(l, int) and not isinstance(l, bool) and l >= 0 for l in labels)
    if ints:
        kinds.append("PUBOMatrix")
    if len(labels) <= 2:
        kinds += ["QUBO", "QUBO"]
        if ints:
            kinds += ["QUBOMatrix", "QUBOMatrix"]
    return kinds


def _pool():
    return st.one_of(
        gen.label_pool(False, 3, 6), gen.label_pool(False, 4, 6), gen.label_pool(False, 5, 6), gen.label_pool(False, 1, 6),
        gen.label_pool(True, 3, 6), gen.label_pool(True, 4, 6), gen.label_pool(False, 2, 2), gen.label_pool(True, 1, 2))


_SMALL = st.one_of(satref.VAR_LEAF, satref.tree_strategy(satref.VAR_LEAF, 1, max_arity=3))
_MODEL = st.tuples(st.integers(0, 119), _SMALL, st.booleans())
_LEAF = st.one_of(satref.VAR_LEAF, satref.VAR_LEAF, satref.MODEL_LEAF)
_TREE = st.one_of([satref.tree_strategy(_LEAF, d, max_arity=4) for d in (1, 2, 3, 4, 2, 3)])


def _resolve(labels, models, tree, post):
    kinds = _kinds_for(labels)
    return {
        "labels": labels,
        "models": [{"kind": kinds[k % len(kinds)], "tree": satref.resolve(t, labels), "rev": rev} for k, t, rev in models],
        "tree": satref.resolve(tree, labels, len(models)),
        "post": post,
    }


def cases():
    # no flatmap: trees are drawn over label / model indices and resolved against the drawn pool
    return st.builds(_resolve, _pool(), st.lists(_MODEL, min_size=0, max_size=3), _TREE, st.sampled_from(POSTS))


# ---------------------------------------------------------------------------

def _is_obj(o):
    return isinstance(o, dict)


def run_case(spec, rec):
    import qubovert as qv
    with warnings.catch_warnings():
        warnings.simplefilter("ignore")
        _run(spec, rec, qv)


def _run(spec, rec, qv):
    pool = list(spec["labels"])
    mspecs = list(spec["models"])
    tree = spec["tree"]
    if satref.size(tree) > MAX_NODES:
        rec.add("too_big")
        return
    order = satref.tree_labels(tree, mspecs)
    n = len(order)
    used = sorted(set(satref.model_refs(tree)))
    used_kinds = {mspecs[i]["kind"] for i in used}
    if ({"QUBO", "QUBOMatrix"} & used_kinds) and len(pool) > 2:
        raise AssertionError("quadratic leaf in a tree over more than two labels")

    # model leaf objects, {0,1}-valued by construction; precondition re-checked
    mobjs = {}
    for i in used:
        ms = mspecs[i]
        d = satref.canon_to_dict(satref.ref_poly(ms["tree"]), pool, ms["rev"])
        obj = d if ms["kind"] == "dict" else lib(gen.cls_of(qv, ms["kind"]), d, what="%s(dict)" % ms["kind"])
        mlabels = satref.tree_labels(ms["tree"])
        want = satref.bool_rows(ms["tree"], mlabels)
        terms = dict(obj)
        ok = all(l in mlabels for l in ref.labels_of(terms))
        if ok:
            tb = ref.table(terms, mlabels, False)
            ok = all(tb[r] == (1 if want[r] else 0) for r in range(1 << len(mlabels)))
        if not ok:
            if ms["kind"] == "dict":
                raise AssertionError("reference polynomial wrong for %r: %r" % (ms["tree"], d))
            rec.add("precondition_failed/model_leaf_constructor")
            return
        mobjs[i] = obj

    watched = []      # (description, object, snapshot) of every dict/model operand ever handed to a gate

    def check_watched(when, upto=None):
        for desc, o, s in watched[:upto]:
            now = gen.snapshot(o)
            if now != s:
                raise Violation("input_modified/%s" % when, "%s: %r -> %r; tree=%r models=%r" % (desc, s, now, tree, mspecs))

    def ev(node, path):
        tag = node[0]
        if tag == "v":
            return node[1]
        if tag == "m":
            return mobjs[node[1]]
        args = [ev(c, path + (j,)) for j, c in enumerate(node[1:])]
        mine = []
        for j, a in enumerate(args):
            if _is_obj(a):
                ent = ("operand %d of %s at %r (%s)" % (j, tag, path, type(a).__name__), a, gen.snapshot(a))
                mine.append(ent)
        r = lib(getattr(qv.sat, tag), *args, what="sat." + tag)
        for desc, o, s in mine:
            now = gen.snapshot(o)
            if now != s:
                raise Violation("input_modified/by_gate/%s" % tag, "%s: %r -> %r; tree=%r models=%r" % (desc, s, now, tree, mspecs))
        watched.extend(mine)
        return r

    result = ev(tree, ())
    check_watched("during_evaluation")

    if not _is_obj(result):
        raise Violation("result_not_a_model/%s" % tree[0], "%r" % (result,))
    terms = dict(result)
    foreign = [l for l in ref.labels_of(terms) if l not in order]
    if foreign:
        raise Violation("foreign_label_in_result/%s" % tree[0], "%r; tree=%r models=%r result=%r" % (foreign, tree, mspecs, terms))
    want = satref.bool_rows(tree, order, mspecs)
    tb = ref.table(terms, order, False)
    for r in range(1 << n):
        if tb[r] != (1 if want[r] else 0):
            raise Violation("truth_table/%s" % tree[0], "result %r at %r, expression is %r; tree=%r models=%r result=%r" % (
                tb[r], ref.assignment(order, r, False), want[r], tree, mspecs, terms))

    # the library's own evaluation of the returned model (dict assignments over exactly the tree's labels)
    if hasattr(result, "value"):
        for r in range(1 << n):
            x = ref.assignment(order, r, False)
            got = lib(result.value, x, what="result.value")
            if got != (1 if want[r] else 0):
                raise Violation("value_method/%s" % tree[0], "result.value(%r) = %r, expression is %r; tree=%r models=%r result=%r" % (
                    x, got, want[r], tree, mspecs, terms))

    # aliasing: editing the returned object must not reach any input
    post = spec["post"]

    def edit(R=result):
        if post == "iadd":
            R += 1
        elif post == "isub":
            R -= 1
        elif post == "imul":
            R *= 3
        elif post == "item":
            R[(pool[0],)] += 1
        elif post == "clear":
            R.clear()
        else:
            raise AssertionError(post)
        return R
    lib(edit, what="edit_result_" + post)
    check_watched("after_editing_result/%s" % tree[0])

    # ... nor any later evaluation: build the same expression once more (inputs are unchanged, as just
    # checked) - it must still compute the truth function although an earlier result was edited in place
    result2 = ev(tree, ())
    tb2 = ref.table(dict(result2), order, False) if _is_obj(result2) else None
    if tb2 is None or any(tb2[r] != (1 if want[r] else 0) for r in range(1 << n)):
        raise Violation("truth_table_after_editing_earlier_result/%s" % tree[0],
                        "second evaluation of the same tree after editing the first result in place (%s): %r; tree=%r models=%r" %
                        (post, dict(result2) if _is_obj(result2) else result2, tree, mspecs))

    d, ar = satref.depth(tree), satref.max_arity(tree)
    nontrivial = d >= 2 and ar >= 3
    gates = satref.gates_of(tree)
    classes = ["gate:" + g for g in sorted(gates)] + ["root:" + tree[0], "depth=%d" % d, "max_arity=%d" % ar, "vars=%d" % n,
                                                        "result_type:" + type(result).__name__, "post:" + post]
    classes += ["leaf_model:" + k for k in sorted(used_kinds)]
    if not used:
        classes.append("labels_only")
    first = tree[1]
    if (tree[0] == "BUFFER" or (tree[0] in ("OR", "XOR") and len(tree) == 2)) and first[0] != "v":
        classes.append("root_returns_copy_of_object_operand")
    if any(len(set(map(repr, nd[1:]))) < len(nd) - 1 for nd in _gate_nodes(tree)):
        classes.append("repeated_operand_in_gate")
    sz = satref.size(tree)
    classes.append("nodes<=5" if sz <= 5 else "nodes<=15" if sz <= 15 else "nodes<=40")
    rec.case(spec, nontrivial, classes)


def _gate_nodes(node, out=None):
    if out is None:
        out = []
    if node[0] not in ("v", "m"):
        out.append(node)
        for c in node[1:]:
            _gate_nodes(c, out)
    return out


def subchecks(tier):
    return [Sub("trees", cases(), run_case, quick=24000, thorough=300000)]
