"""Shared Hypothesis strategies producing plain-data specs, and builders turning
specs into qubovert objects.

A *polynomial spec* is a list of ``[key, coef]`` pairs (a list, so that term
order and duplicate keys are representable); ``key`` is a tuple of labels.
"""
from hypothesis import strategies as st

BOOL_KINDS = ["QUBO", "PUBO", "PCBO", "QUBOMatrix", "PUBOMatrix"]
SPIN_KINDS = ["QUSO", "PUSO", "PCSO", "QUSOMatrix", "PUSOMatrix"]
ALL_KINDS = BOOL_KINDS + SPIN_KINDS
MATRIX_KINDS = ["QUBOMatrix", "PUBOMatrix", "QUSOMatrix", "PUSOMatrix"]
QUAD_KINDS = ["QUBO", "QUSO", "QUBOMatrix", "QUSOMatrix"]
LABELLED_KINDS = ["QUBO", "PUBO", "PCBO", "QUSO", "PUSO", "PCSO"]


def is_spin(kind):
    return kind in SPIN_KINDS or kind == "dict_spin"


def is_matrix(kind):
    return kind in MATRIX_KINDS


def is_quad(kind):
    return kind in QUAD_KINDS


def cls_of(qv, kind):
    if kind in MATRIX_KINDS:
        return getattr(qv.utils, kind)
    return getattr(qv, kind)


# label pools: ints (also negative), strings, tuples; never bools, never '__a*'
LABEL_POOLS = [
    [0, 1, 2, 3, 4, 5],
    ["a", "b", "c", "d", "e", "f"],
    [0, "a", 1, "b", ("x", 1), -3],
    [("x", 0), ("x", 1), ("y", 0), "z", 2, 7],
    [3, 1, 4, 15, 9, 2],
    ["x0", "x1", "y", -1, 0, ("t",)],
    # distinct labels with equal hashes (CPython: hash(-1) == hash(-2) == -2, hash(2**61 - 1) == hash(0) == 0)
    [-1, -2, 3, 2 ** 61 - 1, 0, "a"],
    # all ints, max == n - 1 and min != 0 for every prefix of length >= 3: "looks like range(n)" by max / len / sum of
    # squares-free shortcuts, but is not
    [-1, 2, 0, 3, 4, 5],
    # two comparable label types whose value order disagrees with the order of their type names (float sorts before int
    # by ordering_key, whatever the values): non-integral floats next to ints
    [1, 2.5, 0, -0.5, 3, "a"],
    # strings whose natural (numeric suffix) order differs from their lexicographic order, next to an int
    ["x2", "x10", 3, "x1", "x9", 12],
    # different labels with equal str()
    [1, "1", 2, "2", (0, 1), "(0, 1)"],
]
# the pools built to upset key ordering / squashing / hashing (a quarter of the cases of the checks that use them)
ORDER_POOLS = [p for p in LABEL_POOLS if p[:2] in ([-1, -2], [-1, 2], [1, 2.5], ["x2", "x10"], [1, "1"])]
# partner of equal hash for the labels of the last pool
HASH_TWIN = {-1: -2, -2: -1, 0: 2 ** 61 - 1, 2 ** 61 - 1: 0}
INT_POOLS = [
    [0, 1, 2, 3, 4, 5],
    [0, 2, 3, 5, 7, 8],     # gaps
    [1, 2, 4, 3, 6, 5],     # 0 unused
    [5, 3, 0, 1, 2, 4],
]


def label_pool(matrix=False, n_min=1, n_max=6):
    pools = INT_POOLS if matrix else LABEL_POOLS + INT_POOLS[:2]
    return st.builds(lambda p, n: list(p[:n]), st.sampled_from(pools), st.integers(n_min, n_max))


def pick(*weighted):
    """Weighted choice that is not dominated by Hypothesis' preference for the
    first element of sampled_from: pick(('a', 3), ('b', 1)).  Shrinks towards
    the first entry."""
    table = []
    for v, w in weighted:
        table.extend([v] * w)
    return st.integers(0, len(table) - 1).map(lambda i: table[i])


INT_COEFS = st.sampled_from([-4, -3, -2, -1, 1, 2, 3, 4])
SMALL_INT_COEFS = st.sampled_from([-2, -1, 1, 2])
DYADIC_COEFS = st.builds(lambda k: k / 8, st.integers(-64, 64).filter(lambda k: k != 0))
MIXED_COEFS = st.one_of(INT_COEFS, INT_COEFS, DYADIC_COEFS)
# whole-model magnitude classes: the usual integer / dyadic coefficients times 2^-40 or 2^40.  Scaling by a power of
# two keeps all arithmetic exact; anything in the library that compares a coefficient with an absolute threshold
# ("treat |v| < 1e-9 as zero", "values above 1e9 are penalties") shows only here.
TINY_COEFS = st.one_of(INT_COEFS, DYADIC_COEFS).map(lambda c: c * 2.0 ** -40)
HUGE_COEFS = st.one_of(INT_COEFS, DYADIC_COEFS).map(lambda c: c * 2.0 ** 40)
FLOAT_COEFS = st.floats(min_value=-10, max_value=10, allow_nan=False, allow_infinity=False).filter(
    lambda x: abs(x) > 1e-3)


def key_strategy(labels, max_deg, repeats=False, min_deg=0):
    """A key over ``labels``: distinct labels in arbitrary order, or (repeats)
    with repeated labels."""
    n = len(labels)
    if repeats:
        return st.lists(st.sampled_from(labels), min_size=min_deg, max_size=max_deg).map(tuple)
    return st.lists(st.sampled_from(labels), min_size=min_deg, max_size=min(max_deg, n),
                    unique_by=lambda l: (str(type(l)), l)).map(tuple)


def poly_strategy(labels, max_terms=6, max_deg=4, coefs=MIXED_COEFS, repeats=False,
                  offset=True, min_terms=0, quad=False, spin=False):
    """Polynomial spec.  quad=True keeps every key within two distinct labels
    after squashing (for the degree-2 model types)."""
    if quad:
        if repeats:
            def squashes(k):
                if spin:
                    return len({l for l in set(k) if k.count(l) % 2}) <= 2 and len(set(k)) <= 2
                return len(set(k)) <= 2
            key = key_strategy(labels, 4, True).filter(squashes)
        else:
            key = key_strategy(labels, 2, False)
    else:
        key = key_strategy(labels, max_deg, repeats)
    if not offset:
        key = key.filter(lambda k: len(k) > 0)
    term = st.tuples(key, coefs).map(list)
    return st.lists(term, min_size=min_terms, max_size=max_terms)


def model_spec(kinds=ALL_KINDS, max_terms=6, max_deg=4, coefs=MIXED_COEFS, n_max=6,
               repeats=False, min_terms=0, n_min=1):
    """{'kind', 'labels', 'terms'} with labels/degree admissible for the kind."""
    def for_kind(kind):
        return label_pool(is_matrix(kind), n_min, n_max).flatmap(
            lambda labels: st.fixed_dictionaries({
                "kind": st.just(kind),
                "labels": st.just(labels),
                "terms": poly_strategy(labels, max_terms, max_deg, coefs, repeats,
                                       True, min_terms, quad=is_quad(kind), spin=is_spin(kind)),
            }))
    return st.sampled_from(list(kinds)).flatmap(for_kind)


# number types: the same numeric values as other members of python's numeric tower.  Everything the oracles do with
# them (==, float(), + and * with python numbers) is exact for the integer / dyadic values in use.
CTYPES = ("plain", "plain", "plain", "np", "frac", "npfloat")
CTYPE = st.sampled_from(CTYPES)


def wrap_number(v, ctype):
    """v as a numpy scalar (np.int64 / np.float64), a fractions.Fraction or unchanged."""
    if ctype in (None, "plain") or isinstance(v, bool) or not isinstance(v, (int, float)):
        return v
    if ctype == "frac":
        from fractions import Fraction
        return Fraction(v)
    import numpy as np
    # np.int64 only for small integers: fixed-width integer arithmetic wraps silently on overflow (numpy's semantics,
    # not the library's), which products of large values would run into
    if ctype == "np" and (isinstance(v, int) or float(v).is_integer()) and abs(v) <= 64:
        return np.int64(int(v))
    return np.float64(v)


def wrap_terms(terms, ctype):
    if ctype in (None, "plain"):
        return terms
    return [[k, wrap_number(v, ctype)] for k, v in terms]


def terms_dict(terms):
    """Raw dict from a polynomial spec (later duplicates of the *same* raw key add up)."""
    d = {}
    for k, v in terms:
        k = tuple(k)
        d[k] = d.get(k, 0) + v
    return d


def build(qv, kind, terms):
    """Build the model by successive ``+=`` (the documented way)."""
    if kind in ("dict", "dict_spin", "dict_bool"):
        return terms_dict(terms)
    m = cls_of(qv, kind)()
    for k, v in terms:
        m[tuple(k)] += v
    return m


def build_from_dict(qv, kind, terms):
    if kind in ("dict", "dict_spin", "dict_bool"):
        return terms_dict(terms)
    return cls_of(qv, kind)(terms_dict(terms))


def snapshot(m):
    """Deep, comparable snapshot of a model / dict argument."""
    s = {"type": type(m).__name__, "items": {k: v for k, v in dict(m).items()}}
    for attr in ("name", "_mapping", "_reverse_mapping", "_variables", "_degree",
                 "_num_binary_variables", "_next_label", "_ancilla"):
        if hasattr(m, attr):
            v = getattr(m, attr)
            s[attr] = v.copy() if hasattr(v, "copy") else v
    if hasattr(m, "_constraints"):
        s["_constraints"] = {k: [dict(p) for p in v] for k, v in m._constraints.items()}
    return s
