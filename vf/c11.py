"""C11 — annealers return well-formed results whose values match their states."""
from . import anneal_gen as ag
from .common import Sub

ID = "C11"
RULE = ("Hypothesis-generated calls of the four annealers: every documented model type per function (dict with "
        "unsorted/repeated labels, labelled types incl. stale bookkeeping after a cancelled term, Matrix types with label gaps), "
        "degree <= 2 / <= 5, dyadic and arbitrary float coefficients, num_anneals in {-1,0,1,2,3,7}, schedules linear / geometric / "
        "explicit lists incl. zeros and [], temperature ranges incl. zero, with/without initial state, both visiting orders, "
        "seed None/0/int. Oracle: result count, element types, spin flag, state keys == model variables (Matrix: 0..max_index), "
        "domain, value == independent evaluation of the model at the state (exact for dyadics, 1e-9*sum|coef| otherwise), "
        "best == minimum, arguments unchanged. Non-trivial = >=2 variables, >=1 coupling of degree >=2, num_anneals >= 1 and "
        "(offset != 0 or labels are not 0..n-1 in order). Distinct = distinct spec hash.")
ASSUMPTIONS = [
    "plain (gcc -O2) build of the C extension compiled from the working tree on every run",
    "for a stale labelled model, and for a QUBOMatrix passed to anneal_pubo, states over the reported or over the true "
    "variables are both accepted (the statement does not pin which)",
    "raw dict inputs never rely on cancellation between different raw keys; seeds are None or ints in [0, 2^31)",
]


def run_case(spec, rec):
    import qubovert as qv
    res, (f, model, kwargs, expected, ref_terms, spin, init) = ag.run_call(qv, spec)
    keys = [k for k in ref_terms if len(set(k)) >= 2]
    offset = ref_terms.get((), 0)
    labels_plain = sorted(expected, key=repr) == [repr(i) for i in range(len(expected))]
    nontrivial = (len(expected) >= 2 and bool(keys) and spec["num_anneals"] >= 1
                  and (offset != 0 or not labels_plain or spec["kind"] in ("dict",)))
    rec.case(spec, nontrivial, ag.classify(spec, expected, ref_terms))


def run_sizes(spec, rec):
    import qubovert as qv
    for c in spec["calls"]:
        res, (f, model, kwargs, expected, ref_terms, spin, init) = ag.run_call(qv, c)
        rec.case(c, True, ["sizes", c["func"], "n=%d" % len(expected)])


def subchecks(tier):
    return [Sub("call", ag.call_spec(), run_case, quick=24000, thorough=400000),
            # chains of every size around the powers of two up to 1025 (size-dependent branches)
            Sub("sizes", None, run_sizes, quick=0, thorough=0, enumerate=ag.size_cases)]
