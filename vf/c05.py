"""C05 — model arithmetic and evaluation agree with polynomial arithmetic.

tree    : expression trees (depth <= 4) over models of the ten types, raw dicts
          and scalars of ONE kind, executed node by node with the library's
          operators (normal, reflected, in-place).  Every node is compared with
          the tree evaluated on plain numbers at all 2^n assignments; storage
          must be canonical; operands of non-in-place operators must be left
          unchanged; result types and the KeyError rule of the degree-2 types
          are judged per node; at the root .value and the four *_value
          functions are called with dict / list / tuple assignments.
rewrite : an integer-coefficient tree and an algebraically rewritten copy
          (commute, distribute, re-associate, expand powers / negation) must
          compare == as models and as dicts.
values  : the four *_value functions and .value on raw dicts (unsorted /
          repeated labels) and on models.
"""
import itertools
import math
import operator
import warnings

import numpy as np
from hypothesis import strategies as st

from . import gen, ref
from .common import Sub, Violation, lib

ID = "C05"
RULE = ("tree: Hypothesis-built expression trees, depth 1..4, leaves = models of the five types of one kind (built by += or from a "
        "dict, keys unsorted / with repeated labels), raw dicts (unsorted / repeated labels) and scalars (ints incl. 0, dyadic "
        "floats) over a shared pool of 1..5 labels (int, negative int, str, tuple; non-negative ints when a Matrix type takes "
        "part); operators + - * in model-model, model-dict, model-scalar and the reflected dict-model / scalar-model forms, ** k "
        "(1..3), unary -, / (power-of-two divisors, plus arbitrary floats under tolerance 1e-9*scale), each binary/pow/div "
        "operator in normal or in-place form. Profiles: poly (non-quadratic types), quad_budget (degree-2 types, label budget "
        "split over products so every term-wise product has <= 2 labels), quad_small (degree-2 types over <= 2 labels, any "
        "operators), quad_wild (degree-2 types, unconstrained: deliberately > 2 labels), mixed (all five types of the kind). "
        "rewrite: integer trees plus 1..4 rewrites. values: raw dicts / models x all assignments x dict/list/tuple forms. "
        "Non-trivial (tree, rewrite) = the tree contains a * or ** (k >= 2) between two non-scalar operands; (values) = a key "
        "with >= 2 labels. Distinct = distinct spec hash.")
ASSUMPTIONS = [
    "reference = the tree evaluated on plain numbers at every assignment (numpy float64, vectorised); a raw dict key counts with repetitions",
    "exact mode: all leaf coefficients / scalars / divisors are dyadic and scale*2^D < 2^52 (scale = tree evaluated on sum|coef|, D = bits after "
    "the binary point), then every library intermediate is exactly representable and comparisons use ==; otherwise tolerance 1e-9*scale and no "
    "KeyError / canonical-dict judgement",
    "binary operators always have at least one model operand (dict-dict, dict-scalar are not library operations); unary -, **, / act on models",
    "result type: type of the model operand when exactly one operand is a model or both have the same type; for two different model types only "
    "'one of the two types' is asserted",
    "KeyError rule (degree-2 types): judged when every candidate result type is degree-2: true degree > 2 => KeyError required; no term-wise "
    "product/addend with > 2 labels => success required; in between unspecified (counted); with candidate types of mixed quadness both outcomes "
    "are accepted whenever a term-wise product has > 2 labels",
    "for ** the 'term-wise' products are all multisets of 2..k keys of the base (implementation independent)",
    "list / tuple assignments only when the labels are exactly 0..n-1; qubo_value / quso_value only when every key has length <= 2",
    "raw dicts never carry zero coefficients or non-tuple keys; models never carry constraints (PCBO/PCSO are used as plain polynomial types)",
]

OPS = {"+": operator.add, "-": operator.sub, "*": operator.mul}
IOPS = {"+": operator.iadd, "-": operator.isub, "*": operator.imul}
OPNAME = {"+": "add", "-": "sub", "*": "mul"}

POOLS5 = [
    ["a", "b", "c", "d", "e"],
    [0, "a", 1, "b", ("x", 1)],
    [("x", 0), ("x", 1), ("y", 0), "z", 2],
    [-3, 1, -1, 15, 9],
    ["x0", -1, 0, ("t",), "y"],
    ["x0", "x1", "x2", "y", "z"],          # integer_var('x', k) creates the labels 'x0', 'x1', ...
    [1, 2.5, 0, -0.5, 3],                  # ints next to non-integral floats
]
INT_POOLS5 = [
    [0, 1, 2, 3, 4],
    [0, 1, 2, 3, 4],
    [3, 0, 2, 1, 4],
    [0, 2, 3, 5, 7],
    [4, 1, 6, 2, 9],
]

PROFILES = ["poly", "poly", "quad_budget", "quad_budget", "quad_small", "quad_wild", "mixed", "mixed"]


def okey(x):
    return (str(type(x)), x)


def squash(key, spin):
    key = tuple(key)
    if spin:
        return frozenset(l for l in set(key) if key.count(l) % 2)
    return frozenset(key)


# ---------------------------------------------------------------------------
# strategies

SCALARS = st.sampled_from([-3, -2, -1, 1, 2, 3, 0, 1, 2, -1, 0.5, -1.5, 0.25, 2.0, -4.0])
INT_SCALARS = st.sampled_from([-3, -2, -1, 1, 2, 3, 0, 1, 2, -1])
POW2_DIV = st.sampled_from([2, 4, -2, 0.5, -8, 1, -1, 0.25])
FLOAT_DIV = st.one_of(st.sampled_from([3, -7, 0.3, 10, -0.7, 1.1]),
                      st.floats(min_value=0.1, max_value=20.0, allow_nan=False, allow_infinity=False),
                      st.floats(min_value=-20.0, max_value=-0.1, allow_nan=False, allow_infinity=False))
_COEFS = {"int": gen.SMALL_INT_COEFS, "mixed": st.one_of(gen.SMALL_INT_COEFS, gen.INT_COEFS, gen.DYADIC_COEFS),
          "tiny": gen.TINY_COEFS, "huge": gen.HUGE_COEFS}
_cache = {}


def _key_strategy(labels, m, spin, repeats):
    """Keys over ``labels`` with at most ``m`` labels after squashing."""
    ck = ("key", labels, m, spin, repeats)
    if ck in _cache:
        return _cache[ck]
    labs = list(labels)
    base = st.lists(st.sampled_from(labs), max_size=min(m, len(labs)), unique_by=okey).map(tuple) if m > 0 else st.just(())
    if repeats:
        def rep(k, picks, front):
            k = tuple(k)
            if not k:
                return k
            extra = ()
            for p in picks:
                l = k[p % len(k)]
                extra += (l, l) if spin else (l,)
            return extra + k if front else k + extra
        s = st.builds(rep, base, st.lists(st.integers(0, 4), max_size=2), st.booleans())
    else:
        s = base
    _cache[ck] = s
    return s


def _terms_strategy(labels, m, spin, repeats, coefmode, max_terms=4):
    ck = ("terms", labels, m, spin, repeats, coefmode, max_terms)
    if ck not in _cache:
        term = st.tuples(_key_strategy(labels, m, spin, repeats), _COEFS[coefmode]).map(list)
        full = st.lists(term, min_size=1, max_size=max_terms)
        # mostly non-empty; the empty model / dict stays in as a rare case
        _cache[ck] = st.one_of(full, full, full, full, full, full, full, st.lists(term, max_size=1))
    return _cache[ck]


class Ctx:
    def __init__(self, spin, labels, kinds, coefmode, allow_div, allow_inplace, scalars):
        self.spin, self.labels, self.kinds = spin, tuple(labels), kinds
        self.coefmode, self.allow_div, self.allow_inplace = coefmode, allow_div, allow_inplace
        self.scalars = scalars


_BOOL = st.booleans()
_REPEATS = st.sampled_from([False, True, True])
_BUILD = st.sampled_from(["iadd", "iadd", "init"])


def _leaf_var(draw, ctx):
    """A variable created with the documented helpers boolean_var / spin_var / integer_var (PCBO / PCSO objects)."""
    if ctx.spin:
        l = draw(st.sampled_from(list(ctx.labels)))
        return ["L", "PCSO", [[(l,), 1]], ["spin_var", l]]
    bits = [l for l in ("x0", "x1", "x2") if l in ctx.labels]
    if bits and draw(_BOOL):
        k = draw(st.integers(1, len(bits)))
        log = draw(_BOOL)
        return ["L", "PCBO", [[("x%d" % i,), (2 ** i if log else 1)] for i in range(k)], ["integer_var", "x", k, log]]
    l = draw(st.sampled_from(list(ctx.labels)))
    return ["L", "PCBO", [[(l,), 1]], ["boolean_var", l]]


def _leaf_model(draw, ctx, budget):
    if ("PCSO" if ctx.spin else "PCBO") in ctx.kinds and (budget is None or budget >= 1) and draw(st.integers(0, 5)) == 0:
        return _leaf_var(draw, ctx)
    kind = draw(st.sampled_from(ctx.kinds))
    m = 3 if budget is None else budget
    if gen.is_quad(kind):
        m = min(m, 2)
    terms = draw(_terms_strategy(ctx.labels, m, ctx.spin, draw(_REPEATS), ctx.coefmode))
    return ["L", kind, terms, draw(_BUILD)]


def _leaf_dict(draw, ctx, budget):
    m = 3 if budget is None else budget
    terms = draw(_terms_strategy(ctx.labels, m, ctx.spin, draw(_REPEATS), ctx.coefmode, 3))
    return ["L", "dict", terms, "dict"]


def _leaf_scalar(draw, ctx):
    return ["S", draw(ctx.scalars)]


_CHOICE = {d: st.sampled_from(c) for d, c in {
    4: "BBBBBPND", 3: "LBBBBBPPND", 2: "LLBBBBPND", 1: "LLLBBBPND"}.items()}
_SHAPES = st.sampled_from(["MM", "MM", "MM", "MD", "MS", "DM", "SM", "MK"])
_BINOP = st.sampled_from(["+", "-", "*", "*"])
_POWK = st.sampled_from([1, 2, 2, 3])
_MK_OP = st.sampled_from(["-", "-", "-", "+", "*"])


def _clone(n):
    if n[0] == "L":
        return ["L", n[1], [[tuple(k), v] for k, v in n[2]], n[3]]
    if n[0] == "S":
        return ["S", n[1]]
    if n[0] == "B":
        return ["B", n[1], n[2], _clone(n[3]), _clone(n[4])]
    if n[0] in ("P", "D"):
        return [n[0], n[1], n[2], _clone(n[3])]
    return ["N", _clone(n[1])]


def _model_expr(draw, ctx, depth, budget, top=False):
    if depth <= 0:
        return _leaf_model(draw, ctx, budget)
    c = draw(_CHOICE[4 if top else min(depth, 4)])
    if c == "L":
        return _leaf_model(draw, ctx, budget)
    if c == "B":
        op = draw(_BINOP)
        shape = draw(_SHAPES)
        bl = br = budget
        if op == "*" and budget is not None and "S" not in shape:
            bl, br = draw(st.sampled_from([(1, 1), (1, 1), (2, 0), (0, 2)])) if budget >= 2 else (budget, 0)
        sides = []
        if shape == "MK":
            # a op (a' + leaf) with a' a structural copy of a: for op '-' every term of a cancels
            op = draw(_MK_OP)
            if op == "*":
                bl = br = None if budget is None else budget // 2
            else:
                bl = br = budget
            left = _model_expr(draw, ctx, depth - 2, bl)
            right = ["B", "+", False, _clone(left), _leaf_model(draw, ctx, br)]
            return ["B", op, ctx.allow_inplace and draw(_BOOL), left, right]
        for s, b in ((shape[0], bl), (shape[1], br)):
            if s == "M":
                sides.append(_model_expr(draw, ctx, depth - 1, b))
            elif s == "D":
                sides.append(_leaf_dict(draw, ctx, b))
            else:
                sides.append(_leaf_scalar(draw, ctx))
        inplace = shape[0] == "M" and ctx.allow_inplace and draw(_BOOL)
        return ["B", op, inplace, sides[0], sides[1]]
    if c == "P":
        k = draw(_POWK)
        b = None if budget is None else (budget // k)
        return ["P", k, ctx.allow_inplace and draw(_BOOL), _model_expr(draw, ctx, depth - 1, b)]
    if c == "N":
        return ["N", _model_expr(draw, ctx, depth - 1, budget)]
    if not ctx.allow_div:
        return ["N", _model_expr(draw, ctx, depth - 1, budget)]
    cdiv = draw(st.one_of(POW2_DIV, POW2_DIV, POW2_DIV, FLOAT_DIV))
    return ["D", cdiv, draw(_BOOL) and ctx.allow_inplace, _model_expr(draw, ctx, depth - 1, budget)]


def _context(draw, rewrite=False):
    spin = draw(_BOOL)
    profile = draw(st.sampled_from(PROFILES))
    int_pool = draw(st.sampled_from([True, True, False]))
    pool = draw(st.sampled_from(INT_POOLS5 if int_pool else POOLS5))
    if profile == "quad_small":
        n = draw(st.integers(1, 2))
    elif profile == "quad_wild":
        n = draw(st.integers(3, 5))
    else:
        n = draw(st.integers(1, 5))
    labels = pool[:n]
    fam = gen.SPIN_KINDS if spin else gen.BOOL_KINDS
    if not int_pool:
        fam = [k for k in fam if not gen.is_matrix(k)]
    if profile == "poly":
        kinds = [k for k in fam if not gen.is_quad(k)]
    elif profile == "mixed":
        kinds = list(fam)
    else:
        kinds = [k for k in fam if gen.is_quad(k)]
    budget = 2 if profile == "quad_budget" else None
    if rewrite:
        ctx = Ctx(spin, labels, kinds, "int", False, False, INT_SCALARS)
    else:
        ctx = Ctx(spin, labels, kinds, draw(st.sampled_from(["int", "mixed", "mixed", "int", "mixed", "mixed", "tiny", "huge"])), True, True, SCALARS)
    return ctx, profile, budget


@st.composite
def tree_spec(draw):
    ctx, profile, budget = _context(draw)
    depth = draw(st.sampled_from([1, 2, 2, 3, 3, 4]))
    tree = _model_expr(draw, ctx, depth, budget, top=True)
    return {"spin": ctx.spin, "labels": list(ctx.labels), "profile": profile, "tree": tree, "ctype": draw(gen.CTYPE)}


@st.composite
def rewrite_spec(draw):
    ctx, profile, budget = _context(draw, rewrite=True)
    depth = draw(st.sampled_from([2, 3, 3, 4]))
    tree = _model_expr(draw, ctx, depth, budget, top=True)
    rw = draw(st.lists(st.tuples(st.integers(0, 30), st.integers(0, 30)).map(list), min_size=1, max_size=4))
    return {"spin": ctx.spin, "labels": list(ctx.labels), "profile": profile, "tree": tree, "rewrites": rw,
            "ctype": draw(gen.CTYPE)}


@st.composite
def values_spec(draw):
    spin = draw(_BOOL)
    kind = draw(st.sampled_from(["dict", "dict", "dict"] + (gen.SPIN_KINDS if spin else gen.BOOL_KINDS)))
    int_pool = gen.is_matrix(kind) or draw(st.sampled_from([True, True, False]))
    pool = draw(st.sampled_from(INT_POOLS5 if int_pool else POOLS5))
    labels = tuple(pool[:draw(st.integers(1, 5))])
    m = 2 if gen.is_quad(kind) else draw(st.sampled_from([2, 3, 4]))
    terms = draw(_terms_strategy(labels, m, spin, draw(_REPEATS), "mixed", 6))
    return {"spin": spin, "labels": list(labels), "kind": kind, "terms": terms, "build": draw(_BUILD),
            "ctype": draw(gen.CTYPE),
            # exact big integers (beyond 2^53, low bit set): evaluation must be exact integer arithmetic
            "bigint": draw(gen.pick((False, 5), (True, 1))),
            # degree-2 model types: one more key whose monomial has three distinct variables (written with repeated
            # labels in some order) - the statement's "others must raise KeyError" for construction and item assignment
            "bad_key": (draw(st.permutations(list(labels[:3]) + [labels[draw(st.integers(0, 2))]] * draw(st.sampled_from([0, 2]))))
                        if gen.is_quad(kind) and len(labels) >= 3 and draw(st.integers(0, 3)) == 0 else None)}


# ---------------------------------------------------------------------------
# reference values

class Stop(Exception):
    """An accepted KeyError ended the evaluation of the tree."""


class Val:
    __slots__ = ("obj", "vt", "tab", "poly", "scale", "D", "exact", "keys")

    def __init__(self, obj, vt, tab, poly, scale, D, exact, keys):
        self.obj, self.vt, self.tab, self.poly = obj, vt, tab, poly
        self.scale, self.D, self.exact, self.keys = scale, D, exact, keys


def _dbits(v):
    """Bits after the binary point of a dyadic number (None if not a finite number)."""
    if isinstance(v, int):
        return 0
    if not math.isfinite(v):
        return None
    return v.as_integer_ratio()[1].bit_length() - 1


def _exact(scale, D):
    return D <= 40 and scale * (2.0 ** D) < 2.0 ** 52


def _pow2(c):
    m, _ = math.frexp(abs(c))
    return m == 0.5


def canon_list(terms, spin):
    out = {}
    for k, v in terms:
        k = squash(k, spin)
        nv = out.get(k, 0) + v
        if nv == 0:
            out.pop(k, None)
        else:
            out[k] = nv
    return out


def table_list(terms, labels, spin):
    n = len(labels)
    pos = {l: i for i, l in enumerate(labels)}
    cols = ref.columns(n, spin)
    out = np.zeros(1 << n, dtype=np.float64)
    for k, v in terms:
        t = np.full(1 << n, float(v), dtype=np.float64)
        for l in k:
            t = t * cols[pos[l]]
        out += t
    return out


def poly_scale(p, c):
    if c == 0:
        return {}
    return {k: v * c for k, v in p.items()}


def poly_pow(p, k, spin):
    out = dict(p)
    for _ in range(k - 1):
        out = ref.poly_mul(out, p, spin)
    return out


def degree(p):
    return max((len(k) for k in p), default=0)


def sorted_key(k):
    return tuple(sorted(k, key=okey))


def check_canonical(R, spin, quad, where, ctxs):
    """Each key sorted by (str(type), label), no repeated label, no zero value."""
    for k, v in dict.items(R):
        if not isinstance(k, tuple):
            raise Violation("canonical/key_not_tuple/%s" % where, "key %r in %r; %s" % (k, dict(R), ctxs))
        if len(set(k)) != len(k):
            raise Violation("canonical/repeated_label/%s" % where, "key %r in %r; %s" % (k, dict(R), ctxs))
        if list(k) != sorted(k, key=okey):
            raise Violation("canonical/key_not_sorted/%s" % where, "key %r in %r; %s" % (k, dict(R), ctxs))
        if v == 0:
            raise Violation("canonical/zero_coefficient/%s" % where, "key %r has value %r in %r; %s" % (k, v, dict(R), ctxs))
        if quad and len(k) > 2:
            raise Violation("canonical/quadratic_type_long_key/%s" % where, "key %r in %s %r; %s" % (k, type(R).__name__, dict(R), ctxs))


def tables_agree(a, b, exact, scale):
    if exact:
        return bool(np.array_equal(a, b))
    return bool(np.all(np.abs(a - b) <= 1e-9 * max(scale, 1e-300)))


def is_model(qv, o):
    return isinstance(o, qv.utils.DictArithmetic)


def is_quad_obj(qv, o):
    return isinstance(o, (qv.utils.QUBOMatrix, qv.utils.QUSOMatrix))


def vt_static(node):
    t = node[0]
    if t == "S":
        return "scalar"
    if t == "L":
        return "dict" if node[1] == "dict" else "model"
    return "model"


# ---------------------------------------------------------------------------
# evaluation of a tree with the library, node by node

class Run:
    def __init__(self, qv, spec, rec):
        self.qv, self.rec = qv, rec
        self.spin = bool(spec["spin"])
        self.labels = list(spec["labels"])
        self.n = len(self.labels)
        self.classes = set()
        self.nontrivial = False
        self.ctype = spec.get("ctype") or "plain"
        if self.ctype == "np":
            # fixed-width numpy integers wrap silently on overflow (numpy's arithmetic on the caller's numbers, not the
            # library's): integers are handed over as np.int64 only when no intermediate of the tree can leave 2^53
            try:
                if not static_scale(spec["tree"]) < 2.0 ** 53:
                    self.ctype = "npfloat"
            except OverflowError:
                self.ctype = "npfloat"
        self.spec_s = "spin=%r labels=%r ctype=%s tree=%r" % (self.spin, self.labels, self.ctype, spec["tree"])
        if self.ctype != "plain":
            self.classes.add("ctype=" + self.ctype)

    # -- leaves -----------------------------------------------------------
    def leaf(self, node):
        qv = self.qv
        if node[0] == "S":
            v = node[1]
            tab = np.full(1 << self.n, float(v), dtype=np.float64)
            poly = {frozenset(): v} if v != 0 else {}
            D = _dbits(v)
            return Val(gen.wrap_number(v, self.ctype), "scalar", tab, poly, abs(v), D or 0,
                       D is not None and _exact(abs(v), D), None)
        _, kind, terms, build = node
        terms = [(tuple(k), v) for k, v in terms]
        tab = table_list(terms, self.labels, self.spin)
        poly = canon_list(terms, self.spin)
        scale = float(sum(abs(v) for _, v in terms))
        Ds = [_dbits(v) for _, v in terms]
        D = max([d for d in Ds if d is not None], default=0)
        exact = all(d is not None for d in Ds) and _exact(scale, D)
        # the reference above works on plain numbers; the library gets the same values in the drawn number type
        terms = [(k, gen.wrap_number(v, self.ctype)) for k, v in terms]
        if kind == "dict":
            d = {k: v for k, v in gen.terms_dict(terms).items() if v != 0}
            self.classes.add("leaf_dict")
            return Val(d, "dict", tab, poly, scale, D, exact, list(d.keys()))
        if isinstance(build, (list, tuple)):
            obj = lib(getattr(qv, build[0]), *build[1:], what=build[0])
            self.classes.add("leaf_" + build[0])
            if type(obj).__name__ != kind:
                raise Violation("var_type/" + build[0], "%s%r is a %s" % (build[0], tuple(build[1:]), type(obj).__name__))
        elif build == "init":
            obj = lib(gen.build_from_dict, qv, kind, terms, what="build")
        else:
            obj = lib(gen.build, qv, kind, terms, what="build")
        self.classes.add("leaf_" + kind)
        if any(len(set(k)) != len(k) for k, _ in terms):
            self.classes.add("leaf_repeated_labels")
        val = Val(obj, "model", tab, poly, scale, D, exact, None)
        self.check_node(val, "leaf")
        return val

    # -- checks on a model-valued node -------------------------------------
    def check_node(self, val, where):
        R = val.obj
        quad = is_quad_obj(self.qv, R)
        check_canonical(R, self.spin, quad, where, self.spec_s)
        try:
            got = ref.table(dict(R), self.labels, self.spin)
        except KeyError as e:
            raise Violation("result_has_foreign_label/%s" % where, "label %s in %r; %s" % (e, dict(R), self.spec_s))
        if not tables_agree(got, val.tab, val.exact, val.scale):
            bad = int(np.nonzero(got != val.tab)[0][0]) if val.exact else int(np.argmax(np.abs(got - val.tab)))
            x = ref.assignment(self.labels, bad, self.spin)
            raise Violation("function_differs/%s" % where,
                            "at x=%r the result %s %r evaluates to %r, the tree to %r (exact=%r); %s" % (
                                x, type(R).__name__, dict(R), got[bad], val.tab[bad], val.exact, self.spec_s))
        if val.exact and val.poly is not None:
            want = {sorted_key(k): v for k, v in val.poly.items()}
            if dict(R) != want:
                raise Violation("canonical_dict_differs/%s" % where,
                                "stored %r, canonical form of the same function %r; %s" % (dict(R), want, self.spec_s))
        val.keys = None

    def keys_of(self, val):
        if val.vt == "scalar":
            return None
        if val.vt == "dict":
            return val.keys
        return [tuple(k) for k in val.poly]

    # -- KeyError rule -------------------------------------------------------
    def judge(self, call, cands, exact, exceed, true_exceed, opname):
        """Run ``call``; apply the KeyError rule for the candidate result types."""
        qv = self.qv
        quads = [issubclass(c, (qv.utils.QUBOMatrix, qv.utils.QUSOMatrix)) for c in cands]
        # The operator is executed by the left-most model operand (python calls its __op__ /
        # __rop__; the right model's type is never a subclass overriding the reflected method),
        # which builds the result as a copy of itself.  So only when THAT operand is a degree-2
        # type can a KeyError be legitimate; with a general left operand (e.g. PUBOMatrix + QUBOMatrix)
        # the sum / product is representable and must succeed.
        if not quads or not quads[0]:
            return lib(call, what=opname)
        all_quad = True
        try:
            R = lib(call, what=opname, expect=(KeyError,))
        except KeyError as e:
            if not exact:
                self.classes.add("keyerror_inexact_unjudged")
                raise Stop()
            if not exceed:
                raise Violation("keyerror_unexpected/%s" % opname,
                                "KeyError(%s) although no term-wise product/addend has more than 2 labels; %s" % (e, self.spec_s))
            if true_exceed and all_quad:
                self.classes.add("keyerror_required")
            elif true_exceed:
                self.classes.add("keyerror_mixed_quadness")
            else:
                self.classes.add("keyerror_termwise_unspecified")
                self.rec.add("keyerror_unspecified_zone")
            raise Stop()
        if exact and true_exceed and all_quad:
            raise Violation("keyerror_missing/%s" % opname,
                            "value has degree > 2 but %s returned %s %r; %s" % (opname, type(R).__name__, dict(R), self.spec_s))
        if exact and exceed and not true_exceed:
            self.classes.add("success_termwise_gt2_unspecified")
            self.rec.add("success_unspecified_zone")
        elif exact and not exceed:
            self.classes.add("quad_success_required")
        return R

    # -- recursive evaluation --------------------------------------------------
    def ev(self, node):
        t = node[0]
        if t in ("L", "S"):
            return self.leaf(node)
        if t == "B":
            return self.binary(node)
        if t == "P":
            return self.power(node)
        if t == "N":
            return self.unary(node)
        if t == "D":
            return self.divide(node)
        raise AssertionError(node)

    def finish(self, R, operands, inplace, tab, poly, scale, D, exact, opname, same_type_as=None, cands=None):
        """Common post-conditions of an operator node."""
        qv = self.qv
        if not is_model(qv, R):
            raise Violation("result_not_a_model/%s" % opname, "%r; %s" % (type(R), self.spec_s))
        if cands is not None:
            if type(R) not in cands:
                raise Violation("result_type/%s" % opname, "result type %s, operand types %s; %s" % (
                    type(R).__name__, [c.__name__ for c in cands], self.spec_s))
        for i, (val, snap) in enumerate(operands):
            if val.vt == "scalar":
                continue
            if inplace and i == 0:
                if R is not val.obj:
                    raise Violation("inplace_returned_new_object/%s" % opname, self.spec_s)
                continue
            if R is val.obj:
                raise Violation("operand_returned_as_result/%s" % opname, self.spec_s)
            now = gen.snapshot(val.obj)
            if now != snap:
                raise Violation("operand_mutated/%s/%s" % (opname, "left" if i == 0 else "right"),
                                "before %r after %r; %s" % (snap, now, self.spec_s))
        if not exact:
            poly = None
        out = Val(R, "model", tab, poly, scale, D, exact, None)
        self.check_node(out, opname)
        self.classes.add(opname)
        self.classes.add("exact" if exact else "inexact")
        return out

    def binary(self, node):
        _, op, inplace, ln, rn = node
        qv = self.qv
        a = self.ev(ln)
        b = self.ev(rn)
        if a.vt != "model" and b.vt != "model":
            raise Violation("harness_invalid_tree", "binary node without model operand: %r" % (node,))
        if inplace and a.vt != "model":
            inplace = False
        name = OPNAME[op]
        if a.vt != "model":
            opname = "r" + name + ("_dict" if a.vt == "dict" else "_scalar")
        else:
            opname = ("i" if inplace else "") + name + {"model": "_model", "dict": "_dict", "scalar": "_scalar"}[b.vt]
        exact = a.exact and b.exact
        if op == "*":
            tab, scale, D = a.tab * b.tab, a.scale * b.scale, a.D + b.D
        elif op == "+":
            tab, scale, D = a.tab + b.tab, a.scale + b.scale, max(a.D, b.D)
        else:
            tab, scale, D = a.tab - b.tab, a.scale + b.scale, max(a.D, b.D)
        exact = exact and _exact(scale, D)
        poly = None
        exceed = true_exceed = False
        cands = [type(v.obj) for v in (a, b) if v.vt == "model"]
        if exact:
            if op == "*":
                poly = ref.poly_mul(a.poly, b.poly, self.spin)
            else:
                poly = ref.poly_add(a.poly, b.poly, 1 if op == "+" else -1)
            true_exceed = degree(poly) > 2
            ka, kb = self.keys_of(a), self.keys_of(b)
            if op == "*":
                if ka is not None and kb is not None:
                    exceed = any(len(squash(x + y, self.spin)) > 2 for x in ka for y in kb)
            else:
                exceed = any(len(squash(x, self.spin)) > 2 for ks in (ka, kb) if ks is not None for x in ks)
            if poly and (op != "*") and len(poly) < len(set(a.poly) | set(b.poly)):
                self.classes.add("cancellation")
            if op == "*" and a.vt != "scalar" and b.vt != "scalar":
                nk = len({squash(tuple(x) + tuple(y), self.spin) for x in a.poly for y in b.poly})
                if len(poly) < nk:
                    self.classes.add("cancellation")
                if any(set(x) & set(y) for x in a.poly for y in b.poly):
                    self.classes.add("shared_label_product")
        if op == "*" and a.vt != "scalar" and b.vt != "scalar":
            self.nontrivial = True
        snaps = [(v, gen.snapshot(v.obj) if v.vt != "scalar" else None) for v in (a, b)]
        f = IOPS[op] if inplace else OPS[op]
        R = self.judge(lambda: f(a.obj, b.obj), cands, exact, exceed, true_exceed, opname)
        if len(cands) == 2 and cands[0] is not cands[1]:
            self.classes.add("model_model_mixed_types")
            if type(R) is cands[0]:
                self.rec.add("mixed_types_result_left")
            elif type(R) is cands[1]:
                self.rec.add("mixed_types_result_right")
        elif len(cands) == 2:
            self.classes.add("model_model_same_type")
        if inplace:
            cands = [type(a.obj)]
        return self.finish(R, snaps, inplace, tab, poly, scale, D, exact, opname, cands=cands)

    def power(self, node):
        _, k, inplace, cn = node
        a = self.ev(cn)
        opname = "ipow" if inplace else "pow"
        scale = a.scale ** k
        D = a.D * k
        exact = a.exact and _exact(scale, D)
        tab = a.tab
        for _ in range(k - 1):
            tab = tab * a.tab
        poly, exceed, true_exceed = None, False, False
        if exact:
            poly = poly_pow(a.poly, k, self.spin)
            true_exceed = degree(poly) > 2
            ks = self.keys_of(a)
            for j in range(2, k + 1):
                if exceed:
                    break
                for combo in itertools.combinations_with_replacement(ks, j):
                    if len(squash(sum(combo, ()), self.spin)) > 2:
                        exceed = True
                        break
        if k >= 2:
            self.nontrivial = True
            self.classes.add("pow%d" % k)
        snaps = [(a, gen.snapshot(a.obj))]
        f = operator.ipow if inplace else operator.pow
        R = self.judge(lambda: f(a.obj, k), [type(a.obj)], exact, exceed, true_exceed, opname)
        return self.finish(R, snaps, inplace, tab, poly, scale, D, exact, opname, cands=[type(a.obj)])

    def unary(self, node):
        a = self.ev(node[1])
        snaps = [(a, gen.snapshot(a.obj))]
        R = lib(operator.neg, a.obj, what="neg")
        poly = poly_scale(a.poly, -1) if a.exact else None
        return self.finish(R, snaps, False, -a.tab, poly, a.scale, a.D, a.exact, "neg", cands=[type(a.obj)])

    def divide(self, node):
        _, c, inplace, cn = node
        a = self.ev(cn)
        opname = "idiv" if inplace else "div"
        scale = a.scale / abs(c)
        if _pow2(c):
            j = int(round(math.log2(abs(c))))
            D = max(0, a.D + j)
            exact = a.exact and _exact(scale, D) and _exact(a.scale, a.D + max(j, 0))
            self.classes.add("pow2_divisor")
        else:
            D, exact = a.D, False
            self.classes.add("float_divisor")
        tab = a.tab / c
        poly = {k: v / c for k, v in a.poly.items()} if exact else None
        snaps = [(a, gen.snapshot(a.obj))]
        f = operator.itruediv if inplace else operator.truediv
        R = lib(f, a.obj, c, what=opname)
        return self.finish(R, snaps, inplace, tab, poly, scale, D, exact, opname, cands=[type(a.obj)])

    # -- value functions at the root -------------------------------------------
    def check_values(self, obj, tab, exact, scale, where):
        check_value_functions(self.qv, obj, self.labels, self.spin, tab, exact, scale, where, self.spec_s, self.classes)


def check_value_functions(qv, obj, labels, spin, tab, exact, scale, where, ctxs, classes):
    """``obj`` (model or raw dict) evaluated by .value and the *_value functions
    at every assignment, in dict / list / tuple form, versus the reference table."""
    n = len(labels)
    keys = list(dict.keys(obj)) if isinstance(obj, dict) else []
    short = all(len(k) <= 2 for k in keys)
    funcs = []
    if hasattr(obj, "value"):
        funcs.append(("value", lambda x: obj.value(x)))
    u = qv.utils
    if spin:
        funcs.append(("puso_value", lambda x: u.puso_value(x, obj)))
        if short:
            funcs.append(("quso_value", lambda x: u.quso_value(x, obj)))
    else:
        funcs.append(("pubo_value", lambda x: u.pubo_value(x, obj)))
        if short:
            funcs.append(("qubo_value", lambda x: u.qubo_value(x, obj)))
    seq_ok = set(labels) == set(range(n)) and all(isinstance(l, int) for l in labels)
    tol = 0.0 if exact else 1e-9 * max(scale, 1e-300)
    present = {l for k in keys for l in k}
    for r in range(1 << n):
        x = ref.assignment(labels, r, spin)
        forms = [("dict", x)]
        if len(present) < n:
            # an assignment of exactly the variables that occur in the terms (a variable that cancelled out of the
            # polynomial needs no value)
            forms.append(("dict_of_present_variables", {l: v for l, v in x.items() if l in present}))
        if seq_ok:
            xs = [x[i] for i in range(n)]
            forms += [("list", xs), ("tuple", tuple(xs))]
        want = tab[r]
        for fname, f in funcs:
            for form, xa in forms:
                got = lib(f, xa, what=fname)
                ok = (got == want) if exact else (abs(got - want) <= tol)
                if not ok:
                    raise Violation("value_differs/%s/%s" % (fname, form),
                                    "%s(%r) = %r, direct evaluation %r; P = %s %r; %s" % (
                                        fname, xa, got, want, type(obj).__name__, dict(obj), ctxs))
    for fname, _ in funcs:
        classes.add("v_" + fname)
    classes.add("assign_seq" if seq_ok else "assign_dict_only")


def static_scale(node):
    """Upper bound of |value| of every intermediate: the tree evaluated on sum(|coef|)."""
    t = node[0]
    if t == "S":
        return float(abs(node[1]))
    if t == "L":
        return float(sum(abs(v) for _, v in node[2]))
    if t == "B":
        a, b = static_scale(node[3]), static_scale(node[4])
        return a * b if node[1] == "*" else a + b
    if t == "P":
        return static_scale(node[3]) ** node[1]
    if t == "N":
        return static_scale(node[1])
    return static_scale(node[3]) / abs(node[1])


def too_big(tree):
    try:
        return not (static_scale(tree) < 1e150)
    except OverflowError:
        return True


def count_nodes(node):
    if node[0] in ("L", "S"):
        return 1
    if node[0] == "B":
        return 1 + count_nodes(node[3]) + count_nodes(node[4])
    return 1 + count_nodes(node[-1])


# ---------------------------------------------------------------------------
# sub-check: tree

def run_tree(spec, rec):
    import qubovert as qv
    with warnings.catch_warnings():
        warnings.simplefilter("ignore")
        if too_big(spec["tree"]):
            rec.add("too_big")
            rec.case(spec, False, ["too_big"])
            return
        run = Run(qv, spec, rec)
        run.classes.add("profile_" + str(spec.get("profile")))
        run.classes.add("spin" if run.spin else "boolean")
        nn = count_nodes(spec["tree"])
        run.classes.add("nodes_1-3" if nn <= 3 else "nodes_4-7" if nn <= 7 else "nodes_8-15" if nn <= 15 else "nodes_16+")
        stopped = False
        try:
            root = run.ev(spec["tree"])
        except Stop:
            stopped = True
        if not stopped:
            if root.vt != "model":
                raise Violation("harness_invalid_tree", "root is not a model: %r" % (spec["tree"],))
            run.check_values(root.obj, root.tab, root.exact, root.scale, "root")
            run.classes.add("completed")
        rec.case(spec, run.nontrivial, sorted(run.classes))


# ---------------------------------------------------------------------------
# sub-check: rewrite

def _is_b(n, ops):
    return n[0] == "B" and n[1] in ops


def _neg_scalar(n):
    return ["S", -n[1]]


def r_commute(n):
    if _is_b(n, "+*"):
        return ["B", n[1], False, n[4], n[3]]
    if _is_b(n, "-"):
        return ["N", ["B", "-", False, n[4], n[3]]]
    return None


def r_distribute(n):
    if not _is_b(n, "*"):
        return None
    a, s = n[3], n[4]
    if _is_b(s, "+-"):
        b, c = s[3], s[4]
        if vt_static(a) == "model" or (vt_static(b) == "model" and vt_static(c) == "model"):
            return ["B", s[1], False, ["B", "*", False, a, b], ["B", "*", False, a, c]]
    s, a = n[3], n[4]
    if _is_b(s, "+-"):
        b, c = s[3], s[4]
        if vt_static(a) == "model" or (vt_static(b) == "model" and vt_static(c) == "model"):
            return ["B", s[1], False, ["B", "*", False, b, a], ["B", "*", False, c, a]]
    return None


def r_reassoc(n):
    for op in "+*":
        if _is_b(n, op) and _is_b(n[3], op):
            a, b, c = n[3][3], n[3][4], n[4]
            if vt_static(b) == "model" or vt_static(c) == "model":
                return ["B", op, False, a, ["B", op, False, b, c]]
        if _is_b(n, op) and _is_b(n[4], op):
            a, b, c = n[3], n[4][3], n[4][4]
            if vt_static(a) == "model" or vt_static(b) == "model":
                return ["B", op, False, ["B", op, False, a, b], c]
    return None


def r_sub_to_add(n):
    if not _is_b(n, "-"):
        return None
    a, b = n[3], n[4]
    if vt_static(b) == "model":
        return ["B", "+", False, a, ["B", "*", False, ["S", -1], b]]
    if vt_static(b) == "scalar":
        return ["B", "+", False, a, _neg_scalar(b)]
    return None


def r_expand_pow(n):
    if n[0] != "P" or n[1] < 2:
        return None
    a = n[3]
    out = ["B", "*", False, a, a]
    for _ in range(n[1] - 2):
        out = ["B", "*", False, out, a]
    return out


def r_neg(n):
    if n[0] == "N":
        return ["B", "*", False, ["S", -1], n[1]]
    return None


def r_double(n):
    if _is_b(n, "*"):
        for i, j in ((3, 4), (4, 3)):
            if n[i][0] == "S" and n[i][1] == 2 and vt_static(n[j]) == "model":
                return ["B", "+", False, n[j], n[j]]
    return None


BASE_RULES = [r_commute, r_distribute, r_reassoc, r_sub_to_add, r_expand_pow, r_neg, r_double]
BASE_NAMES = ["commute", "distribute", "reassociate", "sub_to_add", "expand_pow", "neg_to_mul", "double_to_add"]


def _children_idx(n):
    if n[0] == "B":
        return [3, 4]
    if n[0] in ("P", "D"):
        return [3]
    if n[0] == "N":
        return [1]
    return []


def _sites(n, rule, path=()):
    out = []
    if rule(n) is not None:
        out.append(path)
    for i in _children_idx(n):
        out += _sites(n[i], rule, path + (i,))
    return out


def _replace(n, path, new):
    if not path:
        return new
    n = list(n)
    n[path[0]] = _replace(n[path[0]], path[1:], new)
    return n


def _get(n, path):
    for i in path:
        n = n[i]
    return n


def _plain(n):
    """Deep copy with lists (specs may arrive with tuples after replay)."""
    if isinstance(n, (list, tuple)) and n and n[0] in ("L", "S", "B", "P", "N", "D") and isinstance(n[0], str):
        if n[0] == "L":
            return ["L", n[1], [[tuple(k), v] for k, v in n[2]], n[3]]
        if n[0] == "S":
            return ["S", n[1]]
        if n[0] == "B":
            return ["B", n[1], False, _plain(n[3]), _plain(n[4])]
        if n[0] == "P":
            return ["P", n[1], False, _plain(n[3])]
        if n[0] == "N":
            return ["N", _plain(n[1])]
        return ["D", n[1], False, _plain(n[3])]
    raise AssertionError(n)


def apply_rewrites(tree, rewrites):
    t = _plain(tree)
    used = []
    for rid, pos in rewrites:
        cand = []
        for i in range(len(BASE_RULES)):
            sites = _sites(t, BASE_RULES[i])
            if sites:
                cand.append((i, sites))
        if not cand:
            break
        # distribute / re-associate are rarer than commute: they get two slots each when applicable
        slots = []
        for i, sites in cand:
            slots += [(i, sites)] * (2 if BASE_NAMES[i] in ("distribute", "reassociate") else 1)
        i, sites = slots[rid % len(slots)]
        path = sites[pos % len(sites)]
        t = _replace(t, path, BASE_RULES[i](_get(t, path)))
        used.append(BASE_NAMES[i])
    return t, used


def run_rewrite(spec, rec):
    import qubovert as qv
    with warnings.catch_warnings():
        warnings.simplefilter("ignore")
        A = _plain(spec["tree"])
        B, used = apply_rewrites(A, spec["rewrites"])
        classes = {"profile_" + str(spec.get("profile")), "spin" if spec["spin"] else "boolean"}
        if not used or B == A:
            rec.add("rewrite_noop")
            rec.case(spec, False, sorted(classes | {"noop"}))
            return
        if count_nodes(B) > 60 or too_big(A) or too_big(B):
            rec.add("rewrite_too_big")
            rec.case(spec, False, sorted(classes | {"too_big"}))
            return
        classes |= {"rw_" + u for u in used}
        results = []
        nontrivial = False
        for name, tree in (("original", A), ("rewritten", B)):
            run = Run(qv, dict(spec, tree=tree), rec)
            try:
                results.append(run.ev(tree))
            except Stop:
                results.append(None)
                classes.add("keyerror_in_" + name)
            nontrivial = nontrivial or run.nontrivial
            classes |= {c for c in run.classes if c.startswith("keyerror") or c.startswith("leaf_") or c == "cancellation"}
        if None in results:
            rec.add("rewrite_not_compared_keyerror")
            rec.case(spec, False, sorted(classes))
            return
        RA, RB = results[0].obj, results[1].obj
        eq = lib(operator.eq, RA, RB, what="eq")
        ne = lib(operator.ne, RA, RB, what="ne")
        same_type = type(RA) is type(RB)
        # canonical storage makes the stored dicts of equal functions identical whatever the model types are;
        # the == operator itself is only judged between models of the same type
        if dict(RA) != dict(RB) or (same_type and (eq is not True or ne is not False)):
            raise Violation("equal_functions_compare_unequal",
                            "A = %r -> %s %r; B = %r -> %s %r; A == B is %r, A != B is %r; spin=%r" % (
                                A, type(RA).__name__, dict(RA), B, type(RB).__name__, dict(RB), eq, ne, spec["spin"]))
        if not same_type:
            classes.add("compared_across_types")
        classes.add("compared")
        rec.case(spec, nontrivial, sorted(classes))


# ---------------------------------------------------------------------------
# sub-check: values

def run_values(spec, rec):
    import qubovert as qv
    with warnings.catch_warnings():
        warnings.simplefilter("ignore")
        spin, labels, kind = bool(spec["spin"]), list(spec["labels"]), spec["kind"]
        terms = [(tuple(k), v) for k, v in spec["terms"]]
        classes = {kind, "spin" if spin else "boolean"}
        ctype = spec.get("ctype") or "plain"
        if spec.get("bigint"):
            terms = [(k, int(v * 8) * 2 ** 57 + 1) for k, v in terms]
            d_exact = gen.terms_dict(terms)
            tab = [ref.ref_value(d_exact, ref.assignment(labels, r, spin)) for r in range(1 << len(labels))]
            ctype = "plain"
            classes.add("bigint")
        else:
            tab = table_list(terms, labels, spin)
        scale = float(sum(abs(v) for _, v in terms))
        if ctype != "plain":
            classes.add("ctype=" + ctype)
            terms = [(k, gen.wrap_number(v, ctype)) for k, v in terms]
        if kind == "dict":
            obj = {k: v for k, v in gen.terms_dict(terms).items() if v != 0}
        elif spec.get("build") == "init":
            obj = lib(gen.build_from_dict, qv, kind, terms, what="build")
        else:
            obj = lib(gen.build, qv, kind, terms, what="build")
        if spec.get("bad_key") and kind != "dict":
            bk = tuple(spec["bad_key"])
            for how in ("setitem", "iadd_item", "constructor"):
                try:
                    if how == "setitem":
                        probe = obj.copy()
                        lib(probe.__setitem__, bk, 2, what="setitem(degree 3 key)", expect=(KeyError,))
                    elif how == "iadd_item":
                        probe = obj.copy()

                        def f():
                            probe[bk] += 2
                        lib(f, what="iadd item(degree 3 key)", expect=(KeyError,))
                    else:
                        lib(type(obj), {bk: 2}, what="constructor(degree 3 key)", expect=(KeyError,))
                except KeyError:
                    continue
                raise Violation("keyerror_missing/%s" % how,
                                "%s accepted the key %r, whose monomial has three distinct variables" % (kind, bk))
            classes.add("degree3_key_rejected")
        if any(len(set(k)) != len(k) for k, _ in terms):
            classes.add("repeated_labels")
        ctxs = "kind=%s spin=%r labels=%r terms=%r" % (kind, spin, labels, terms)
        check_value_functions(qv, obj, labels, spin, tab, True, scale, "values", ctxs, classes)
        if kind != "dict":
            # the plain dict of a model is a valid argument as well
            check_value_functions(qv, dict(obj), labels, spin, tab, True, scale, "values", ctxs, classes)
        rec.case(spec, any(len(set(k)) >= 2 for k, _ in terms), sorted(classes))


# ---------------------------------------------------------------------------
# selfop: both operands are the SAME object (a + a, a *= a, b = a; a -= b, ...).
# The tree generator always builds independent operands, so aliasing of the two
# sides of an operator needs its own generator.

SELF_OPS = ["add", "sub", "mul", "iadd", "isub", "imul", "ipow2", "pow2", "ipow3", "iadd_items", "imul_dict_of_self",
            "pow4", "pow5", "ipow5", "pow6", "ipow6", "pow7", "ipow9"]


def selfop_spec():
    def for_kind(kind):
        spin = gen.is_spin(kind)
        quad = gen.is_quad(kind)

        def for_labels(labels):
            return st.fixed_dictionaries({
                "kind": st.just(kind), "labels": st.just(labels),
                "op": st.sampled_from(SELF_OPS),
                "terms": gen.poly_strategy(labels, 5, 2 if quad else 4, gen.MIXED_COEFS, repeats=True,
                                           min_terms=1, quad=quad, spin=spin),
            })
        # degree-2 types: two labels only, so that every term-wise product stays within two labels
        return gen.label_pool(gen.is_matrix(kind), 1, 2 if quad else 4).flatmap(for_labels)
    return st.sampled_from(gen.ALL_KINDS).flatmap(for_kind)


def run_selfop(spec, rec):
    import qubovert as qv
    kind, op = spec["kind"], spec["op"]
    spin = gen.is_spin(kind)
    terms = [[tuple(k), v] for k, v in spec["terms"]]
    if op.startswith(("pow", "ipow")) and int(op.lstrip("ipow")) >= 4:
        # high powers: small integer coefficients and at most 3 terms keep every intermediate exact and small
        terms = [[k, int(v) if float(v).is_integer() else (1 if v > 0 else -1)] for k, v in terms[:3]]
        terms = [[k, max(-2, min(2, v)) or 1] for k, v in terms]
    a = lib(gen.build, qv, kind, terms, what="build")
    before = dict(a)
    order = list(spec["labels"])
    ta = ref.table(before, order, spin)
    snap = gen.snapshot(a)
    inplace = op.startswith("i")

    def f():
        x = a
        if op == "add":
            return a + a
        if op == "sub":
            return a - a
        if op == "mul":
            return a * a
        if op == "pow2":
            return a ** 2
        if op == "iadd":
            x += a
        elif op == "isub":
            x -= a
        elif op == "imul":
            x *= a
        elif op == "ipow2":
            x **= 2
        elif op == "ipow3":
            x **= 3
        elif op == "iadd_items":
            x += a.items() if False else a      # same object through a second name
        elif op == "imul_dict_of_self":
            x *= a
            x *= 1
        elif op.startswith("pow"):
            return a ** int(op[3:])
        elif op.startswith("ipow"):
            x **= int(op[4:])
        return x
    R = lib(f, what="selfop_" + op)
    if op.startswith(("pow", "ipow")):
        want = ta ** int(op.lstrip("ipow"))       # exact: dyadic values of small magnitude (checked below)
        if not np.all(np.abs(want) < 2.0 ** 50):
            rec.add("selfop_too_big")
            return
    else:
        want = {"add": 2 * ta, "iadd": 2 * ta, "iadd_items": 2 * ta, "sub": 0 * ta, "isub": 0 * ta,
                "mul": ta * ta, "imul": ta * ta, "imul_dict_of_self": ta * ta}[op]
    got = ref.table(dict(R), order, spin)
    if not np.array_equal(got, want):
        i = int(np.nonzero(got != want)[0][0])
        raise Violation("selfop_value/%s" % op,
                        "%s with both operands the same %s object: at %r result %r, expected %r; a=%r result=%r" %
                        (op, kind, ref.assignment(order, i, spin), got[i], want[i], before, dict(R)))
    for k, v in dict.items(R):
        if not v:
            raise Violation("selfop_zero_stored/%s" % op, "%r" % (dict(R),))
    if type(R) is not type(a):
        raise Violation("selfop_type/%s" % op, "%s -> %s" % (kind, type(R).__name__))
    if inplace:
        if R is not a:
            raise Violation("selfop_inplace_new_object/%s" % op, "")
    else:
        if R is a:
            raise Violation("selfop_returns_operand/%s" % op, "")
        if gen.snapshot(a) != snap:
            raise Violation("selfop_operand_changed/%s" % op, "%r -> %r" % (snap, gen.snapshot(a)))
    rec.case(spec, (op in ("mul", "imul", "imul_dict_of_self") or "pow" in op) and len(before) >= 2,
             ["selfop=" + op, "kind=" + kind])


# ---------------------------------------------------------------------------
# crosstype: one binary operation between two models of DIFFERENT types of one family (every ordered pair of the five
# boolean or the five spin types), with unequal numbers of terms on the two sides, plain / reflected-by-python
# dispatch, optionally wrapped in a second operation.  Judged by the same tree evaluator (values, canonical form,
# operands unchanged, KeyError only where the left-most model operand's type is quadratic and a product has > 2 labels).

@st.composite
def crosstype_spec(draw):
    spin = draw(_BOOL)
    fam = gen.SPIN_KINDS if spin else gen.BOOL_KINDS
    ka = draw(st.sampled_from(fam))
    kb = draw(st.sampled_from([k for k in fam if k != ka]))
    pool = draw(st.sampled_from(INT_POOLS5))                 # Matrix kinds need non-negative ints
    labels = tuple(pool[:draw(st.integers(2, 5))])
    small, big = draw(st.sampled_from([(1, 4), (2, 5), (1, 2), (3, 3)]))
    if draw(_BOOL):
        small, big = big, small

    def leaf(kind, nterms):
        m = 2 if gen.is_quad(kind) else 3
        key = _key_strategy(labels, m, spin, False)
        terms = draw(st.lists(st.tuples(key, _COEFS["mixed"]).map(list), min_size=nterms, max_size=nterms,
                              unique_by=lambda t: frozenset(t[0])))
        if not gen.is_quad(kind) and len(labels) >= 3 and draw(_BOOL):
            terms = terms + [[tuple(labels[:3]), draw(gen.SMALL_INT_COEFS)]]       # a cubic term on the non-quadratic side
        return ["L", kind, terms, draw(_BUILD)]
    op = draw(st.sampled_from(["+", "+", "-", "*"]))
    a, b = leaf(ka, small), leaf(kb, big)
    if op == "*":
        a[2], b[2] = [t for t in a[2] if len(t[0]) <= 1], [t for t in b[2] if len(t[0]) <= 1]
    tree = ["B", op, False, a, b]
    if draw(st.integers(0, 3)) == 0:
        tree = ["B", draw(st.sampled_from(["+", "-"])), False, tree, ["S", draw(SCALARS)]]
    return {"spin": spin, "labels": list(labels), "profile": "mixed", "tree": tree, "ctype": draw(gen.CTYPE)}


def subchecks(tier):
    return [
        Sub("tree", tree_spec(), run_tree, quick=11000, thorough=150000),
        Sub("crosstype", crosstype_spec(), run_tree, quick=4000, thorough=50000),
        Sub("rewrite", rewrite_spec(), run_rewrite, quick=3600, thorough=40000),
        Sub("values", values_spec(), run_values, quick=5000, thorough=50000),
        Sub("selfop", selfop_spec(), run_selfop, quick=4800, thorough=60000),
    ]
