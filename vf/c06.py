"""C06 — the sixteen logical constraint methods of PCBO penalise exactly the
violating assignments.

One case = a PCBO holding a random base objective, one call of
``add_constraint_G`` / ``add_constraint_eq_G`` with generated operands, and the
oracle

    F := (terms after) - (terms before)        reference subtraction of the stored dicts
    vars(F) within the operands' variables, no '__a*' name
    F(x) == 0      where the gate relation holds (python-bool semantics)
    F(x) >= lam    where it does not
    is_solution_valid(x) <=> relation holds
    operands (dicts / models) unchanged

Operands are labels or expressions that are {0,1}-valued by construction; the
precondition is re-checked on every expression operand by truth table before the
call (a failing precondition is counted and the case skipped, it is C07's
subject, not C06's).
"""
import warnings

from hypothesis import strategies as st

from . import gen, ref, satref
from .common import Sub, Violation, lib

ID = "C06"
RULE = ("Sub 'labels_exhaustive': every method x every admissible number of gate operands <= 3 (+ target for eq_*) x "
        "lam in {1/2,1,3,10} x 6 label pools x 2 label selections x {empty, fixed} base objective, operands plain distinct "
        "labels — enumerated completely. Sub 'generated': Hypothesis draws method, 1..4 gate operands (documented minimum "
        "respected), each operand/target a label (repeats allowed) or an expression (sat gate tree of depth 1..2 over the same "
        "label pool, passed as the qubovert.sat result over labels or over boolean_var objects, or as dict / PUBO / PCBO built from "
        "the reference polynomial), lam, random dyadic base objective. Non-trivial = at least one operand is an expression or "
        ">= 3 gate operands. Distinct = distinct spec hash.")
ASSUMPTIONS = [
    "arity counts the gate operands (the *variables of the method), the target of eq_* comes in addition",
    "expression operands are {0,1}-valued by construction and re-checked by truth table before the call; constant "
    "expressions (e.g. XOR(x, x)) are admissible operands",
    "coefficients are dyadic rationals and lam in {1/2, 1, 3, 10}, so after - before and all comparisons are exact",
    "is_solution_valid is queried with a complete assignment of the label pool",
    "QUBO / matrix typed operands are not generated (the docstrings ask for a label or a PUBO representation)",
]

LAMS = [0.5, 1, 3, 10]
# name -> (has target, min gate operands, max gate operands)
METHODS = {
    "AND": (False, 1, 4), "OR": (False, 1, 4), "XOR": (False, 1, 4),
    "NAND": (False, 1, 4), "NOR": (False, 1, 4), "XNOR": (False, 1, 4),
    "NOT": (False, 1, 1), "BUFFER": (False, 1, 1),
    "eq_AND": (True, 2, 4), "eq_OR": (True, 2, 4), "eq_NAND": (True, 2, 4), "eq_NOR": (True, 2, 4),
    "eq_XOR": (True, 1, 4), "eq_XNOR": (True, 1, 4),
    "eq_NOT": (True, 1, 1), "eq_BUFFER": (True, 1, 1),
}
FORMS = ["sat", "sat_bv", "dict", "pubo", "pcbo"]
FIXED_BASE = [[(), 1.5], [(0,), -2], [(1, 0), 0.75], [(2, 1, 0), 3], [(3,), -0.125], [(5, 4), 1]]


# ---------------------------------------------------------------------------
# strategies

_TREE = st.one_of(satref.tree_strategy(satref.VAR_LEAF, 1, max_arity=3),
                  satref.tree_strategy(satref.VAR_LEAF, 2, max_arity=3))
_LAB = st.tuples(st.just("l"), satref.IDX)
_EXPR = st.tuples(st.just("e"), st.sampled_from(FORMS), _TREE, st.booleans())
_OPERAND = st.one_of(_LAB, _LAB, _EXPR)
_BASE = st.lists(st.tuples(st.lists(satref.IDX, max_size=3), gen.DYADIC_COEFS), max_size=5)


def _resolve_operand(o, labels):
    if o is None:
        return None
    if o[0] == "l":
        return ("l", labels[o[1] % len(labels)])
    return ("e", o[1], satref.resolve(o[2], labels), o[3])


def _resolve(method, labels, k, target, ops4, base, lam, pad):
    has_target, lo, hi = METHODS[method]
    n = lo + k % (hi - lo + 1)
    return {
        "method": method,
        "labels": labels,
        "base": [[tuple(labels[i % len(labels)] for i in key), c] for key, c in base],
        "target": _resolve_operand(target, labels) if has_target else None,
        "ops": [_resolve_operand(o, labels) for o in ops4[:n]],
        "lam": lam,
        "pad": pad,
        "exhaustive": False,
    }


def generated():
    # no flatmap: everything is drawn over label indices and resolved against the drawn pool
    return st.builds(_resolve, st.sampled_from(sorted(METHODS)), gen.label_pool(False, 2, 6), st.integers(0, 11),
                     _OPERAND, st.lists(_OPERAND, min_size=4, max_size=4), _BASE, st.sampled_from(LAMS),
                     st.integers(0, 63))


def enumerate_labels(tier):
    """Finite sub-domain: plain distinct labels, <= 3 gate operands, all methods."""
    for m in sorted(METHODS):
        has_target, lo, hi = METHODS[m]
        for n in range(lo, min(hi, 3) + 1):
            k = n + (1 if has_target else 0)
            for pi, pool in enumerate(gen.LABEL_POOLS):
                for sel in (0, 1):
                    chosen = list(pool[:k]) if sel == 0 else list(reversed(pool[-k:]))
                    for lam in LAMS:
                        for bi in (0, 1):
                            base = []
                            if bi:
                                # the fixed base objective, relabelled into this pool
                                base = [[tuple(pool[i] for i in key), c] for key, c in FIXED_BASE]
                            ops = [("l", l) for l in chosen]
                            yield {
                                "method": m, "labels": list(pool), "base": base,
                                "target": ops[0] if has_target else None,
                                "ops": ops[1:] if has_target else ops,
                                "lam": lam, "pad": (pi * 7 + n) % 64, "exhaustive": True,
                            }


# ---------------------------------------------------------------------------

def _is_anc(l):
    return isinstance(l, str) and l.startswith("__a")


def _build_sat(qv, node, bv):
    if node[0] == "v":
        if bv:
            return lib(qv.boolean_var, node[1], what="boolean_var")
        return node[1]
    args = [_build_sat(qv, c, bv) for c in node[1:]]
    return lib(getattr(qv.sat, node[0]), *args, what="sat." + node[0])


def _make_operand(qv, o, pool):
    """-> (object handed to the library, tree for the reference, kind string)"""
    if o[0] == "l":
        return o[1], ("v", o[1]), "label"
    _, form, tree, rev = o
    if form == "sat":
        return _build_sat(qv, tree, False), tree, form
    if form == "sat_bv":
        return _build_sat(qv, tree, True), tree, form
    d = satref.canon_to_dict(satref.ref_poly(tree), pool, rev)
    if form == "dict":
        return d, tree, form
    if form == "pubo":
        return lib(qv.PUBO, d, what="PUBO(dict)"), tree, form
    if form == "pcbo":
        return lib(qv.PCBO, d, what="PCBO(dict)"), tree, form
    raise AssertionError(form)


def relation(method, target, vals):
    g = method[3:] if method.startswith("eq_") else method
    out = satref.gate_value(g, vals)
    if method.startswith("eq_"):
        return bool(target) == out
    return out


def _twin_spec(spec):
    """The same case with every label that has a hash twin (gen.HASH_TWIN) replaced by its twin: operand tuples
    that differ although their hashes agree."""
    m = gen.HASH_TWIN

    def lab(l):
        return m.get(l, l) if isinstance(l, int) and not isinstance(l, bool) else l

    def tree(t):
        if t[0] == "v":
            return ("v", lab(t[1]))
        return (t[0],) + tuple(tree(c) for c in t[1:])

    def operand(o):
        if o is None:
            return None
        if o[0] == "l":
            return ("l", lab(o[1]))
        return ("e", o[1], tree(o[2]), o[3])
    out = dict(spec)
    out["labels"] = [lab(l) for l in spec["labels"]]
    out["base"] = [[tuple(lab(l) for l in k), c] for k, c in spec["base"]]
    out["target"] = operand(spec["target"])
    out["ops"] = [operand(o) for o in spec["ops"]]
    return out


def run_case(spec, rec):
    import qubovert as qv
    with warnings.catch_warnings():
        warnings.simplefilter("ignore")
        _run(spec, rec, qv)
        if any(isinstance(l, int) and not isinstance(l, bool) and l in gen.HASH_TWIN for l in spec["labels"]):
            # a second, different call in the same process whose operands hash like the first one's
            _run(_twin_spec(spec), rec, qv, count=False)


def _run(spec, rec, qv, count=True):
    method = spec["method"]
    has_target, lo, hi = METHODS[method]
    if spec.get("wide"):
        hi = WIDE_MAX
    pool = list(spec["labels"])
    lam = spec["lam"]
    ospecs = ([spec["target"]] if has_target else []) + list(spec["ops"])
    n_gate = len(spec["ops"])
    if not lo <= n_gate <= hi:
        raise AssertionError("inadmissible arity in spec")

    H = lib(gen.build, qv, "PCBO", spec["base"], what="build_base")

    objs, trees, kinds = [], [], []
    for o in ospecs:
        obj, tree, kind = _make_operand(qv, o, pool)
        objs.append(obj)
        trees.append(tree)
        kinds.append(kind)

    # variables of the operands, in pool order
    opvars = []
    for t in trees:
        for l in satref.tree_labels(t):
            if l not in opvars:
                opvars.append(l)
    opvars.sort(key=lambda l: [i for i, p in enumerate(pool) if type(p) is type(l) and p == l][0])
    n = len(opvars)
    rows = list(ref.all_assignments(opvars, False))
    truth = [[satref.eval_bool(t, a) for t in trees] for _, a in rows]

    # precondition: every expression operand is its truth function, by table
    for obj, tree, kind, j in zip(objs, trees, kinds, range(len(objs))):
        if kind == "label":
            continue
        terms = dict(obj)
        extra = [l for l in ref.labels_of(terms) if l not in opvars]
        ok = not extra
        if ok:
            tb = ref.table(terms, opvars, False)
            ok = all(tb[r] == (1 if truth[r][j] else 0) for r in range(1 << n))
        if not ok:
            if kind in ("sat", "sat_bv"):
                rec.add("precondition_failed/sat_operand_not_its_truth_function")
                return
            raise AssertionError("reference polynomial of %r is wrong: %r" % (tree, terms))

    snaps = [None if k == "label" else gen.snapshot(o) for o, k in zip(objs, kinds)]
    before = ref.canon(dict(H), False)
    base_vars = {l for k in before for l in k}
    # complete assignment of the pool for is_solution_valid
    pad = spec.get("pad", 0)
    full0 = {l: (pad >> i) & 1 for i, l in enumerate(pool)}
    if not lib(H.is_solution_valid, dict(full0), what="is_solution_valid(before)"):
        raise Violation("valid_before/%s" % method, "PCBO without constraints reports an invalid solution")

    name = "add_constraint_" + method
    # lam as a python number, numpy scalar or Fraction (drawn from the case's pad so that no new spec field is needed)
    lam_arg = gen.wrap_number(lam, gen.CTYPES[spec.get("pad", 0) % len(gen.CTYPES)])
    lib(getattr(H, name), *objs, what=name, lam=lam_arg)

    after = ref.canon(dict(H), False)
    F = ref.poly_add(after, before, -1)
    detail = "%s(%s, lam=%r) on base %r; F=%r" % (
        name, ", ".join(repr(o) for o in objs), lam, ref.canon_to_terms(before), ref.canon_to_terms(F))

    fvars = []
    for k in F:
        for l in k:
            if l not in fvars:
                fvars.append(l)
    anc = [l for l in fvars if _is_anc(l)]
    if anc:
        raise Violation("ancilla_in_penalty/%s" % method, "%r in %s" % (anc, detail))
    foreign = [l for l in fvars if l not in opvars]
    if foreign:
        raise Violation("foreign_variable_in_penalty/%s" % method, "%r not among operand variables %r; %s" % (
            foreign, opvars, detail))

    tb = ref.table(ref.canon_to_terms(F), opvars, False)
    n_hold = 0
    for r, a in rows:
        tv = truth[r]
        holds = relation(method, tv[0] if has_target else None, tv[1:] if has_target else tv)
        n_hold += holds
        fv = tb[r]
        if holds and fv != 0:
            raise Violation("penalty_nonzero_on_satisfying/%s" % method, "F=%r at %r (operand truth values %r); %s" % (
                fv, a, tv, detail))
        if not holds and not fv >= lam:
            raise Violation("penalty_below_lam_on_violating/%s" % method, "F=%r < lam=%r at %r (operand truth values %r); %s" % (
                fv, lam, a, tv, detail))
        if n > 8 and (r * 2654435761 + pad) % (1 << (n - 6)):
            continue        # wide gates: is_solution_valid on a pseudo-random 1/2^(n-6) of the rows (about 64), F on all rows
        full = dict(full0)
        full.update(a)
        valid = lib(H.is_solution_valid, full, what="is_solution_valid")
        if bool(valid) != bool(holds):
            raise Violation("is_solution_valid_%s/%s" % ("rejects_satisfying" if holds else "accepts_violating", method),
                            "is_solution_valid(%r)=%r but relation holds=%r (operand truth values %r); constraints=%r; %s" % (
                                full, valid, holds, tv, H.constraints, detail))

    for o, k, s, os_ in zip(objs, kinds, snaps, ospecs):
        if s is not None and gen.snapshot(o) != s:
            raise Violation("operand_modified/%s" % method, "operand %r (%s): %r -> %r" % (os_, k, s, gen.snapshot(o)))

    n_expr = sum(1 for k in kinds if k != "label")
    nontrivial = n_expr >= 1 or n_gate >= 3
    classes = [method, "n_gate_operands=%d" % n_gate, "lam=%r" % lam, "vars=%d" % n]
    classes += sorted({"operand:" + k for k in kinds})
    if has_target:
        classes.append("target:" + kinds[0])
    if n_expr:
        classes.append("has_expression_operand")
    if len(objs) > 1 and n < sum(len(satref.tree_labels(t)) for t in trees):
        classes.append("operands_share_variables")
    if n_hold == 0:
        classes.append("relation_unsatisfiable")
    elif n_hold == (1 << n):
        classes.append("relation_tautology")
    if base_vars & set(opvars):
        classes.append("base_shares_variables")
    if spec.get("exhaustive"):
        classes.append("exhaustive")
    if spec.get("wide"):
        classes.append("wide")
    if not count:
        rec.add("hash_twin_reruns")
        return
    rec.case(spec, nontrivial, classes)


# wide gates: 5..10 gate operands (+ target), plain labels with occasional repeats, over a 12-label pool
WIDE_MAX = 10
WIDE_COSTLY = ("XOR", "XNOR", "eq_OR", "eq_NOR", "eq_XOR", "eq_XNOR")
WIDE_POOLS = [
    [0, 1, 2, 3, 4, 5, 6, 7, 8, 9, 10, 11],
    ["a", 0, "b", 1, ("x", 1), -3, "c", 2, -1, -2, "d", 7],
]


def _wide(method, pool, perm, n, repeat, lam, pad, with_base):
    has_target = METHODS[method][0]
    labels = [pool[i] for i in perm]
    if method in WIDE_COSTLY:
        n = min(n, 9)       # the library itself needs > 10 s to expand these gates over 10 operands
    k = n + (1 if has_target else 0)
    chosen = labels[:k]
    if repeat and n >= 2:
        chosen[-1] = chosen[-2]                 # one repeated operand
    ops = [("l", l) for l in chosen]
    base = [[tuple(labels[i % len(labels)] for i in key), c] for key, c in FIXED_BASE] if with_base else []
    return {"method": method, "labels": labels, "base": base, "target": ops[0] if has_target else None,
            "ops": ops[1:] if has_target else ops, "lam": lam, "pad": pad, "exhaustive": False, "wide": True}


def wide():
    multi = sorted(m for m, (t, lo, hi) in METHODS.items() if hi > 1)
    return st.builds(_wide, st.sampled_from(multi), st.sampled_from(WIDE_POOLS), st.permutations(list(range(12))),
                     gen.pick((5, 2), (6, 2), (7, 2), (8, 2), (9, 2), (10, 1)), gen.pick((False, 3), (True, 1)),
                     st.sampled_from(LAMS), st.integers(0, 4095), st.booleans())


def subchecks(tier):
    return [
        Sub("labels_exhaustive", None, run_case, quick=0, thorough=0, enumerate=enumerate_labels),
        Sub("generated", generated(), run_case, quick=20000, thorough=200000),
        Sub("wide", wide(), run_case, quick=240, thorough=6000, shrink_quick=False),
    ]
