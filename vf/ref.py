"""Reference semantics — the trusted oracle core.  Never calls qubovert.

A polynomial is any mapping ``key -> coefficient`` where ``key`` is a tuple of
labels (repetitions allowed).  Its value at an assignment is
``sum(coef * prod(assignment[l] for l in key))`` by plain multiplication, which
is the ground truth for boolean variables (x*x = x arithmetically on {0,1}) and
spin variables (z*z = 1 on {1,-1}) alike.

Truth tables: row index r, bit i of r is the boolean value of ``order[i]``; the
spin value is ``1 - 2*bit`` (boolean 0 <-> spin +1, boolean 1 <-> spin -1, the
library's documented correspondence).
"""
import itertools

import numpy as np


def ref_value(terms, assignment):
    total = 0
    for key, coef in terms.items():
        p = coef
        for l in key:
            p = p * assignment[l]
        total = total + p
    return total


def labels_of(terms):
    """Labels in first-appearance order (deterministic given dict order)."""
    seen, out = set(), []
    for key in terms:
        for l in key:
            if l not in seen:
                seen.add(l)
                out.append(l)
    return out


def columns(n, spin):
    idx = np.arange(1 << n, dtype=np.int64)
    cols = []
    for i in range(n):
        b = ((idx >> i) & 1).astype(np.float64)
        cols.append(1.0 - 2.0 * b if spin else b)
    return cols


def table(terms, order, spin):
    """Values of the polynomial on all 2^n assignments of ``order``."""
    n = len(order)
    pos = {l: i for i, l in enumerate(order)}
    cols = columns(n, spin)
    out = np.zeros(1 << n, dtype=np.float64)
    for key, coef in terms.items():
        t = np.full(1 << n, float(coef), dtype=np.float64)
        for l in key:
            t = t * cols[pos[l]]
        out += t
    return out


def assignment(order, r, spin):
    if spin:
        return {l: 1 - 2 * ((r >> i) & 1) for i, l in enumerate(order)}
    return {l: (r >> i) & 1 for i, l in enumerate(order)}


def all_assignments(order, spin):
    for r in range(1 << len(order)):
        yield r, assignment(order, r, spin)


def canon(terms, spin):
    """Canonical multilinear form: frozenset-of-labels -> coefficient.
    Boolean: duplicates collapse; spin: labels of even multiplicity drop."""
    out = {}
    for key, coef in terms.items():
        if spin:
            cnt = {}
            for l in key:
                cnt[l] = cnt.get(l, 0) + 1
            k = frozenset(l for l, c in cnt.items() if c % 2)
        else:
            k = frozenset(key)
        v = out.get(k, 0) + coef
        if v == 0:
            out.pop(k, None)
        else:
            out[k] = v
    return out


def poly_add(a, b, sb=1):
    out = dict(a)
    for k, v in b.items():
        nv = out.get(k, 0) + sb * v
        if nv == 0:
            out.pop(k, None)
        else:
            out[k] = nv
    return out


def poly_mul(a, b, spin):
    """Product of two canonical polynomials."""
    out = {}
    for ka, va in a.items():
        for kb, vb in b.items():
            k = (ka ^ kb) if spin else (ka | kb)
            nv = out.get(k, 0) + va * vb
            if nv == 0:
                out.pop(k, None)
            else:
                out[k] = nv
    return out


def canon_to_terms(c):
    return {tuple(k): v for k, v in c.items()}


def bool_to_spin_canon(c):
    """x = (1 - z)/2 substituted into a canonical boolean polynomial."""
    out = {}
    for key, coef in c.items():
        ls = list(key)
        m = len(ls)
        for r in range(m + 1):
            for sub in itertools.combinations(ls, r):
                k = frozenset(sub)
                nv = out.get(k, 0) + coef * ((-1) ** r) / (2 ** m)
                if nv == 0:
                    out.pop(k, None)
                else:
                    out[k] = nv
    return out


def spin_to_bool_canon(c):
    """z = 1 - 2x substituted into a canonical spin polynomial."""
    out = {}
    for key, coef in c.items():
        ls = list(key)
        for r in range(len(ls) + 1):
            for sub in itertools.combinations(ls, r):
                k = frozenset(sub)
                nv = out.get(k, 0) + coef * ((-2) ** r)
                if nv == 0:
                    out.pop(k, None)
                else:
                    out[k] = nv
    return out


REL = {
    "eq": lambda v: v == 0,
    "ne": lambda v: v != 0,
    "lt": lambda v: v < 0,
    "le": lambda v: v <= 0,
    "gt": lambda v: v > 0,
    "ge": lambda v: v >= 0,
}


def close(a, b, rel=1e-9, absol=1e-9):
    return abs(a - b) <= absol + rel * max(abs(a), abs(b))
