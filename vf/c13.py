"""C13 — AnnealResults keeps `best` equal to the minimum under every list operation.

Model-based history testing: a generated history (plain data) is interpreted
against a real ``AnnealResults`` and against a plain python list of
``(state-items, value, spin)`` triples; after every step the real collection
must equal the model element-wise and the `best` invariant must hold.  Index
operands are raw integers resolved against the *current* length, so every
generated step is one a plain list accepts.
"""
import collections

from hypothesis import strategies as st

from . import gen
from .common import Sub, Violation, lib

ID = "C13"
RULE = ("Hypothesis-generated histories (initial collection + 1..40 steps drawn from 30 list operations "
        "of AnnealResults, operands incl. empty collections, duplicates, negative/out-of-range slice bounds), "
        "interpreted against a plain-list model with the `best` invariant checked after every step. "
        "Non-trivial = the history contains a removing/overwriting step (remove, pop, del, item/slice assignment, "
        "slice adoption, filter) that removes the element `best` pointed at while the collection stays non-empty, "
        "or an extend/+=/+ with an empty collection on either side. Distinct = distinct spec hash.")
ASSUMPTIONS = [
    "operands are restricted to those a plain list accepts (pop index in range, remove of a present element, "
    "extended-slice assignment of matching length); `*=` is not generated (the statement lists `*` only)",
    "elements are AnnealResult objects with finite values; states are dicts over <=3 labels with values in the "
    "domain of their spin flag",
]

LABELS = ["a", 0, 1]
# incl. values that differ only in the 12th significant digit (an order that uses a tolerance would confuse them)
VALUES = [-2, -1, 0, 1, 2, 0.5, -1.5, 3, 1 + 2.0 ** -40, 10 ** 12, 10 ** 12 + 1, -2 - 2.0 ** -39]


def _item():
    def mk(spin, vals, v):
        dom = (1, -1) if spin else (0, 1)
        return [[(l, dom[b]) for l, b in zip(LABELS, vals)], v, spin]
    return st.builds(mk, st.booleans(),
                     st.lists(st.integers(0, 1), min_size=0, max_size=3),
                     st.sampled_from(VALUES))


def _items(maxn=4):
    return st.lists(_item(), min_size=0, max_size=maxn)


_idx = st.integers(-7, 7)
_sl = st.one_of(st.none(), st.integers(-7, 7))
_step = st.sampled_from([None, None, None, 1, 2, -1, -2, 3])
_kind = st.sampled_from(["ar", "ar", "list", "tuple", "gen"])


def _op():
    return st.one_of(
        st.tuples(st.just("append"), _item()),
        st.tuples(st.just("add_state"), _item()),
        st.tuples(st.just("insert"), _idx, _item()),
        st.tuples(st.just("remove"), _idx),
        st.tuples(st.just("remove_best")),
        st.tuples(st.just("pop"), _idx),
        st.tuples(st.just("pop_best")),
        st.tuples(st.just("extend"), _kind, _items()),
        st.tuples(st.just("iadd"), _kind, _items()),
        st.tuples(st.just("add"), st.sampled_from(["ar", "list"]), _items()),
        st.tuples(st.just("mul"), st.integers(-1, 3)),
        st.tuples(st.just("rmul"), st.integers(-1, 3)),
        st.tuples(st.just("getslice"), _sl, _sl, _step, st.booleans()),
        st.tuples(st.just("getitem"), _idx),
        st.tuples(st.just("setitem"), _idx, _item()),
        st.tuples(st.just("setitem_best"), _item()),
        st.tuples(st.just("setslice"), _sl, _sl, _step, _items(5)),
        st.tuples(st.just("delitem"), _idx),
        st.tuples(st.just("delitem_best")),
        st.tuples(st.just("delslice"), _sl, _sl, _step),
        st.tuples(st.just("clear")),
        st.tuples(st.just("sort"), st.booleans()),
        st.tuples(st.just("copy"), st.booleans()),
        st.tuples(st.just("construct"), _kind),
        st.tuples(st.just("filter"), st.sampled_from(VALUES), st.booleans()),
        st.tuples(st.just("filter_states"), st.sampled_from(LABELS), st.sampled_from([0, 1, -1]), st.booleans()),
        st.tuples(st.just("apply_function"), st.sampled_from([-1, 0, 1, 0.5]), st.booleans()),
        st.tuples(st.just("convert_states"), st.booleans()),
        st.tuples(st.just("to_boolean"), st.booleans()),
        st.tuples(st.just("to_spin"), st.booleans()),
    )


def _chain():
    """Three-step chains that blind generation rarely lines up on one object: an operation that may set internal
    state (sort / reverse sort / copy / slicing), an in-place merge, then an operation that recomputes best."""
    first = st.one_of(st.tuples(st.just("sort"), st.booleans()), st.tuples(st.just("sort"), st.just(False)),
                      st.tuples(st.just("copy"), st.just(True)), st.tuples(st.just("to_spin"), st.just(True)),
                      st.tuples(st.just("to_boolean"), st.just(True)))
    merge = st.one_of(st.tuples(st.just("iadd"), _kind, _items()), st.tuples(st.just("extend"), _kind, _items()),
                      st.tuples(st.just("setslice"), _sl, _sl, st.just(None), _items(5)),
                      st.tuples(st.just("insert"), _idx, _item()))
    last = st.one_of(st.tuples(st.just("delitem"), _idx), st.tuples(st.just("delitem_best")), st.tuples(st.just("pop_best")),
                     st.tuples(st.just("delslice"), _sl, _sl, _step), st.tuples(st.just("remove"), _idx))
    return st.tuples(st.just("chain"), st.tuples(first, merge, last))


def history():
    return st.fixed_dictionaries({
        "init": _items(4),
        "init_kind": _kind,
        "ops": st.lists(st.one_of(_op(), _op(), _op(), _op(), _op(), _chain()), min_size=1, max_size=40),
        # element type of the state entries handed to AnnealResult: python ints, numpy scalars (unsigned for boolean
        # states, signed for spin states), floats
        "vtype": gen.pick(("int", 5), ("np_small", 1), ("np_int64", 1), ("float", 1)),
    })


# ---------------------------------------------------------------------------


_VTYPE = {"t": "int"}       # element type of the state entries of the history being run (set by run_case)


def _entry(v, spin):
    import numpy as np
    t = _VTYPE["t"]
    if t == "np_small":
        return np.int8(v) if spin else np.uint8(v)
    if t == "np_int64":
        return np.int64(v)
    if t == "float":
        return float(v)
    return v


def _mk(qsim, it):
    state, value, spin = it
    return qsim.AnnealResult({l: _entry(v, spin) for l, v in dict(state).items()}, value, spin)


def _triple(r):
    return (frozenset(r.state.items()), r.value, r.spin)


def _mtriple(it):
    return (frozenset((l, v) for l, v in it[0]), it[1], it[2])


def _operand(qsim, kind, items):
    objs = [_mk(qsim, it) for it in items]
    if kind == "ar":
        return qsim.AnnealResults(objs)
    if kind == "list":
        return list(objs)
    if kind == "tuple":
        return tuple(objs)
    return (o for o in objs)


def check_invariant(real, model, step, qsim, what="self"):
    if type(real) is not qsim.AnnealResults:
        raise Violation("type/%s/%s" % (step, type(real).__name__),
                        "%s after %s is %s, not AnnealResults" % (what, step, type(real).__name__))
    got = [_triple(r) for r in real]
    if got != model:
        raise Violation("content/%s" % step, "%s after %s: real=%r model=%r" % (what, step, got, model))
    best = real.best
    if not model:
        if best is not None:
            raise Violation("best_not_none_on_empty/%s" % step,
                            "%s empty after %s but best=%r" % (what, step, best))
        return
    if best is None:
        raise Violation("best_none_on_nonempty/%s" % step, "%s after %s: best is None, len=%d" % (what, step, len(model)))
    mn = min(t[1] for t in model)
    if best.value != mn:
        raise Violation("best_not_min/%s" % step,
                        "%s after %s: best.value=%r min=%r content=%r" % (what, step, best.value, mn, model))
    if not any(_triple(best) == t for t in model):
        raise Violation("best_not_element/%s" % step,
                        "%s after %s: best=%r not in %r" % (what, step, _triple(best), model))


def _best_index(model):
    mn = min(t[1] for t in model)
    return [i for i, t in enumerate(model) if t[1] == mn]


def _b2s(t):
    conv = {0: 1, 1: -1}
    return (frozenset((l, conv[v]) for l, v in t[0]), t[1], True) if not t[2] else t


def _s2b(t):
    conv = {1: 0, -1: 1}
    return (frozenset((l, conv[v]) for l, v in t[0]), t[1], False) if t[2] else t


def run_case(spec, rec):
    import qubovert.sim as qsim

    classes = set()
    nontrivial = False
    _VTYPE["t"] = spec.get("vtype") or "int"
    if _VTYPE["t"] != "int":
        classes.add("state_entries=" + _VTYPE["t"])
    model = [_mtriple(it) for it in spec["init"]]
    real = lib(qsim.AnnealResults, _operand(qsim, spec["init_kind"], spec["init"]), what="construct")
    check_invariant(real, model, "construct", qsim)

    ops = []
    for op in spec["ops"]:
        if op[0] == "chain":
            ops.extend(op[1])
            classes.add("chain")
        else:
            ops.append(op)
    for op in ops:
        name = op[0]
        n = len(model)

        def removes_best(idxs):
            # the removed positions contain every... at least the element best points at
            if not model or len(idxs) == n:
                return False
            b = real.best
            return b is not None and any(real[i] is b for i in idxs)

        if name in ("append", "add_state"):
            it = op[1]
            if name == "append":
                lib(real.append, _mk(qsim, it), what=name)
            else:
                lib(real.add_state, dict(it[0]), it[1], it[2], what=name)
            model.append(_mtriple(it))
        elif name == "insert":
            lib(real.insert, op[1], _mk(qsim, op[2]), what=name)
            model.insert(op[1], _mtriple(op[2]))
        elif name in ("remove", "remove_best", "pop", "pop_best", "delitem", "delitem_best"):
            if not model:
                rec.add("skipped_empty")
                continue
            if name.endswith("_best"):
                cands = _best_index(model)
                i = cands[0]
            else:
                i = op[1] % n
            base = name.split("_")[0]
            if base == "remove":
                target = real[i]
                j = model.index(model[i])  # list.remove removes the first equal element
                if removes_best([j]):
                    nontrivial = True
                    classes.add("removes_best")
                lib(real.remove, target, what="remove")
                del model[j]
            else:
                # present the index in negative form half of the time
                idx = i if (len(op) < 2 or op[1] >= 0) else i - n
                if removes_best([i]):
                    nontrivial = True
                    classes.add("removes_best")
                if base == "pop":
                    got = lib(real.pop, idx, what="pop")
                    if _triple(got) != model[i]:
                        raise Violation("pop_wrong_element", "pop(%d) returned %r, model %r" % (idx, _triple(got), model[i]))
                else:
                    def _del():
                        del real[idx]
                    lib(_del, what="delitem")
                del model[i]
        elif name in ("extend", "iadd", "add"):
            kind, items = op[1], op[2]
            other = _operand(qsim, kind, items)
            if not items or not model:
                nontrivial = True
                classes.add("empty_operand")
            if name == "extend":
                lib(real.extend, other, what="extend")
            elif name == "iadd":
                def _iadd(r=real, o=other):
                    r += o
                    return r
                new = lib(_iadd, what="iadd")
                if new is not real:
                    raise Violation("iadd_not_in_place", "+= returned a different object")
            else:
                before = [_triple(r) for r in real]
                new = lib(lambda: real + other, what="add")
                if [_triple(r) for r in real] != before:
                    raise Violation("add_mutated_left", "+ changed the left operand")
                check_invariant(real, model, "add(left operand)", qsim)
                real = new
            model = model + [_mtriple(it) for it in items]
        elif name in ("mul", "rmul"):
            k = op[1]
            if n * k > 400:
                rec.add("skipped_growth_cap")      # repeated x3 grows geometrically; histories stay small by construction
                continue
            new = lib((lambda: real * k) if name == "mul" else (lambda: k * real), what=name)
            check_invariant(real, model, name + "(operand)", qsim)
            real = new
            model = model * k
            classes.add(name)
        elif name == "getslice":
            sl = slice(op[1], op[2], op[3])
            new = lib(lambda: real[sl], what="getslice")
            sub = model[sl]
            check_invariant(new, sub, "getslice", qsim, "derived")
            if op[4]:
                kept = set(range(n)[sl])
                if removes_best([i for i in range(n) if i not in kept]) and sub:
                    nontrivial = True
                    classes.add("removes_best")
                real, model = new, sub
        elif name == "getitem":
            if not model:
                rec.add("skipped_empty")
                continue
            i = op[1] % n
            got = lib(lambda: real[i if op[1] >= 0 else i - n], what="getitem")
            if _triple(got) != model[i]:
                raise Violation("getitem_wrong", "real[%d]=%r model=%r" % (i, _triple(got), model[i]))
        elif name in ("setitem", "setitem_best"):
            if not model:
                rec.add("skipped_empty")
                continue
            if name == "setitem_best":
                i, it = _best_index(model)[0], op[1]
            else:
                i, it = op[1] % n, op[2]
            if real[i] is real.best and n > 1:
                nontrivial = True
                classes.add("removes_best")

            # present the index in negative form for negative raw operands (and for every second *_best)
            neg = (op[1] < 0) if name == "setitem" else (len(it[0]) % 2 == 1)
            idx = i - n if neg else i

            def _set():
                real[idx] = _mk(qsim, it)
            lib(_set, what="setitem")
            model[i] = _mtriple(it)
        elif name == "setslice":
            sl = slice(op[1], op[2], op[3])
            items = list(op[4])
            idxs = list(range(n)[sl])
            step = 1 if op[3] is None else op[3]
            if step != 1:
                # extended slice: a plain list requires matching length
                if len(items) < len(idxs):
                    items = (items * (len(idxs) + 1))[:len(idxs)] if items else None
                    if items is None:
                        if idxs:
                            rec.add("skipped_setslice")
                            continue
                        items = []
                else:
                    items = items[:len(idxs)]
            if removes_best(idxs) or (idxs and len(idxs) == n and items):
                nontrivial = True
                classes.add("removes_best")

            def _sets():
                real[sl] = [_mk(qsim, it) for it in items]
            lib(_sets, what="setslice")
            model[sl] = [_mtriple(it) for it in items]
        elif name == "delslice":
            sl = slice(op[1], op[2], op[3])
            idxs = list(range(n)[sl])
            if removes_best(idxs):
                nontrivial = True
                classes.add("removes_best")

            def _dels():
                del real[sl]
            lib(_dels, what="delslice")
            del model[sl]
        elif name == "clear":
            lib(real.clear, what="clear")
            model = []
        elif name == "sort":
            rev = op[1]
            lib(lambda: real.sort(reverse=rev), what="sort")
            got = [_triple(r) for r in real]
            if collections.Counter(got) != collections.Counter(model):
                raise Violation("sort_not_permutation", "sorted=%r model=%r" % (got, model))
            vals = [t[1] for t in got]
            ok = all(a >= b for a, b in zip(vals, vals[1:])) if rev else all(a <= b for a, b in zip(vals, vals[1:]))
            if not ok:
                raise Violation("sort_not_ordered", "reverse=%r values=%r" % (rev, vals))
            model = got
        elif name == "copy":
            new = lib(real.copy, what="copy")
            check_invariant(new, list(model), "copy", qsim, "derived")
            if new is real:
                raise Violation("copy_is_self", "copy() returned self")
            if op[1]:
                real = new
        elif name == "construct":
            kind = op[1]
            src = {"ar": real, "list": list(real), "tuple": tuple(real), "gen": (r for r in real)}[kind]
            new = lib(qsim.AnnealResults, src, what="construct")
            check_invariant(new, list(model), "construct", qsim, "derived")
            real = new
        elif name == "filter":
            thr = op[1]
            new = lib(real.filter, lambda r: r.value <= thr, what="filter")
            sub = [t for t in model if t[1] <= thr]
            check_invariant(new, sub, "filter", qsim, "derived")
            if op[2]:
                real, model = new, sub
        elif name == "filter_states":
            l, b = op[1], op[2]

            def pred(s):
                return l in s and s[l] == b
            new = lib(real.filter_states, pred, what="filter_states")
            sub = [t for t in model if pred(dict(t[0]))]
            check_invariant(new, sub, "filter_states", qsim, "derived")
            if op[3]:
                if sub and len(sub) < n and not any(r is real.best for r in new):
                    nontrivial = True
                    classes.add("removes_best")
                real, model = new, sub
        elif name == "apply_function":
            d = op[1]
            new = lib(real.apply_function,
                      lambda r: qsim.AnnealResult(dict(r.state), -r.value + d, r.spin), what="apply_function")
            sub = [(t[0], -t[1] + d, t[2]) for t in model]
            check_invariant(new, sub, "apply_function", qsim, "derived")
            if op[2]:
                real, model = new, sub
        elif name == "convert_states":
            new = lib(real.convert_states, lambda s: {("w", k): v for k, v in s.items()}, what="convert_states")
            sub = [(frozenset((("w", k), v) for k, v in t[0]), t[1], t[2]) for t in model]
            check_invariant(new, sub, "convert_states", qsim, "derived")
            check_invariant(real, model, "convert_states(original)", qsim)
        elif name in ("to_boolean", "to_spin"):
            f = _s2b if name == "to_boolean" else _b2s
            g = _b2s if name == "to_boolean" else _s2b
            new = lib(getattr(real, name), what=name)
            sub = [f(t) for t in model]
            check_invariant(new, sub, name, qsim, "derived")
            check_invariant(real, model, name + "(original)", qsim)
            back = lib(getattr(new, "to_spin" if name == "to_boolean" else "to_boolean"), what=name + "_inverse")
            # mutually inverse on states: converting back restores every element that was converted
            uniform = all(t[2] == (name == "to_boolean") for t in model)
            if uniform:
                check_invariant(back, list(model), name + "_roundtrip", qsim, "derived")
            else:
                check_invariant(back, [g(t) for t in sub], name + "_roundtrip", qsim, "derived")
            if op[1]:
                real, model = new, sub
        else:
            raise AssertionError("unknown op %r" % (name,))
        classes.add(name)
        check_invariant(real, model, name, qsim)

    rec.case(spec, nontrivial, sorted(classes))


def subchecks(tier):
    return [Sub("history", history(), run_case, quick=48000, thorough=800000)]
