"""C16 — symbolic coefficients commute with substitution.

``build(symbols).subs(symbol -> c)`` is compared with ``build(c)``:

constraints : PCBO / PCSO, integer objective (optionally plus ``mu * poly`` with a
    symbol ``mu``), 1..3 constraint calls (six comparison methods, the sixteen
    logical methods on PCBO) whose weight is a sympy Symbol (shared or distinct),
    ``log_trick`` both ways, ``bounds`` absent / exact / half given.  A small
    family puts a symbol *inside* the polynomial of ``add_constraint_eq_zero``
    together with the explicit ``bounds`` the docstring demands for that use, so
    that the recorded constraint itself has to be substituted.
reductions  : unconstrained PUBO / PUSO, ``to_qubo / to_quso / to_pubo(deg) /
    to_puso(deg)`` with ``lam = Symbol`` or ``lam = lambda v: Symbol * abs(v)``.

Oracle: same type, same keys, equal coefficients (``==`` when every substituted
value is a small dyadic, else relative 1e-9 of the coefficient mass), equal
``constraints``; the symbolic object equals its snapshot after ``subs``.  The
constant-symbol reduction is additionally compared with the reduction under the
*callable* constant ``lambda v: c`` (documented as the meaning of a non-callable
``lam``), so that a code path ignoring non-callable ``lam`` on both sides cannot
hide.  In ``cancel`` mode the value of one symbol is solved from a coefficient of
the symbolic result so that this coefficient vanishes exactly.
"""
import warnings

from hypothesis import strategies as st

from . import gen, ref
from .common import Sub, Violation, lib

ID = "C16"
RULE = ("constraints: kind in {PCBO,PCSO} x <=3 labels x integer objective (<=3 terms) [+ mu*poly] x 1..3 constraint calls "
        "(eq ne lt le gt ge incl. special-form templates; 16 logical methods on PCBO; log_trick T/F; bounds none/exact/min/max; "
        "symbol inside P for eq with exact bounds) x weight symbols shared/distinct x values (dyadic / non-dyadic / solved so that "
        "one coefficient cancels) x subs call form (dict, pair list, one symbol at a time). reductions: PUBO/PUSO (3..5 labels, "
        "degree<=4) x to_qubo/to_quso/to_pubo(d)/to_puso(d) x lam=Symbol | lambda v: Symbol*abs(v) x values as above. "
        "Non-trivial = a constraint introduced ancillas (num_ancillas>0) or the reduced form has >=1 reduction ancilla. "
        "Distinct = distinct spec hash.")
ASSUMPTIONS = [
    "compared: type, key set, coefficients, `constraints` (relation -> list of polynomials, entry type included); NOT compared: "
    "variables/mapping/num_ancillas (the statement lists coefficients, type, recorded constraints) - differences are only counted",
    "exact == when all substituted values are dyadic with <=10 fractional bits and < 1024; otherwise |diff| <= 1e-9 * (sum|coef| of "
    "both sides) and keys whose coefficient is within that tolerance of 0 may be present on one side only",
    "a symbol inside the constraint polynomial is generated only for add_constraint_eq_zero over <=2 labels with exact bounds "
    "(the eq branches then depend on the bounds alone; the special z==xy form needs 3 variables)",
    "README workflow part (to_qubo()/to_quso() of the symbolic constrained model with the default penalty, then subs) is compared "
    "only when no coefficient vanished and key order, mapping and variable count of both builds agree (pair choice depends on them)",
    "if both builds raise the same library exception the case is counted (both_raise) and not judged",
]

RELS = ["eq", "ne", "lt", "le", "gt", "ge"]
LOGIC_N = ["AND", "OR", "XOR", "NAND", "NOR", "XNOR"]
LOGIC_EQ_N = ["eq_AND", "eq_OR", "eq_XOR", "eq_NAND", "eq_NOR", "eq_XNOR"]
LOGIC_1 = ["BUFFER", "NOT"]
LOGIC_EQ_1 = ["eq_BUFFER", "eq_NOT"]

DYADIC_VALUES = [0.5, 1, 2, 3.25, 10, 0.125, 4, 1.5, 0.25, 3, 8, 2.5]
OTHER_VALUES = [0.1, 0.3, 1 / 3, 2.7, 7.3, 0.7, 1.1]
N_SYMS = 5            # lam0 lam1 lam2 (weights), mu (objective), k (inside P)
MU, KP = 3, 4

COEF3 = st.sampled_from([-3, -2, -1, 1, 2, 3])


# ---------------------------------------------------------------------------
# strategies

def _pick(options):
    """Uniform choice over a short list (small bounded draws are uniform in Hypothesis;
    wide integer ranges are not - they favour 0 and the end points)."""
    return st.sampled_from(list(options))


def _values():
    dy = st.lists(st.sampled_from(DYADIC_VALUES), min_size=N_SYMS, max_size=N_SYMS)
    mixed = st.lists(st.sampled_from(DYADIC_VALUES + OTHER_VALUES + OTHER_VALUES), min_size=N_SYMS, max_size=N_SYMS)
    return st.one_of(dy, dy, mixed)


def _templates(labels):
    l0, l1 = labels[0], labels[1]
    l2 = labels[2] if len(labels) > 2 else labels[0]
    t = [
        [[(l0,), 1], [(l1,), 1], [(), -1]],                 # sum x <= 1
        [[(l0,), 1], [(l1,), 2], [(), -2]],                 # min of P-offset is 0, offset < 0
        [[(l0,), -1], [(l1,), -1], [(), 1]],                # 1 <= x + y
        [[(l0,), 1], [(l1,), -1]],                          # x <= y
        [[(l0, l1), 1], [(), -1]],
        [[(l0,), 2], [(l1,), -3], [(), 1]],
    ]
    if len(labels) > 2:
        t += [[[(l2,), 1], [(l0, l1), -1]],                 # z == x y
              [[(l0,), 1], [(l1,), 1], [(l2,), 1], [(), -1]],
              [[(l0,), 1], [(l1,), 1], [(l2,), 1], [(), -2]]]
    tmpl = st.sampled_from(t)
    return st.builds(lambda p, neg: [[k, -v if neg else v] for k, v in p], tmpl, st.booleans())


def _operand(labels):
    lab = st.sampled_from(labels)
    return st.one_of(
        st.tuples(st.just("l"), lab), st.tuples(st.just("l"), lab), st.tuples(st.just("l"), lab),
        st.tuples(st.just("not"), lab),
        st.tuples(st.just("and"), lab, lab),
    ).map(list)


def _call(kind, labels):
    sym = st.integers(0, 2)
    poly = st.one_of(gen.poly_strategy(labels, 3, 2, COEF3, min_terms=1), _templates(labels))
    cmp_call = st.fixed_dictionaries({
        # (the first alternative of a choice is drawn most often: measured in the class histogram)
        "m": _pick(["ne", "lt", "le", "gt", "ge", "eq"]), "P": poly, "sym": sym, "log_trick": st.booleans(),
        "bounds": _pick(["none", "none", "exact", "exact", "min", "max"]), "symP": st.none(),
    })
    symp_call = st.fixed_dictionaries({
        "m": st.just("eq"), "P": gen.poly_strategy(labels[:2], 3, 2, COEF3, min_terms=1), "sym": sym,
        "log_trick": st.just(True), "bounds": st.just("exact"), "symP": st.integers(0, 2),
        # record-only constraint (lam = 0, documented): the symbol then lives in the recorded constraint alone
        "lam0": gen.pick((False, 2), (True, 1)),
    })
    calls = [cmp_call] * 6 + [symp_call]
    if kind == "PCBO":
        op = _operand(labels)
        log_n = st.fixed_dictionaries({"m": _pick(LOGIC_N), "ops": st.lists(op, min_size=2, max_size=3), "sym": sym})
        log_eq_n = st.fixed_dictionaries({"m": _pick(LOGIC_EQ_N), "ops": st.lists(op, min_size=3, max_size=4), "sym": sym})
        calls = [cmp_call] * 4 + [symp_call] + [
            log_n, log_n, log_eq_n, log_eq_n,
            st.fixed_dictionaries({"m": _pick(LOGIC_1), "ops": st.lists(op, min_size=1, max_size=1), "sym": sym}),
            st.fixed_dictionaries({"m": _pick(LOGIC_EQ_1), "ops": st.lists(op, min_size=2, max_size=2), "sym": sym}),
        ]
    return st.integers(0, len(calls) - 1).flatmap(lambda i: calls[i])


def constraint_specs():
    def for_kind(kind):
        return gen.label_pool(False, 2, 3).flatmap(lambda labels: st.fixed_dictionaries({
            "kind": st.just(kind),
            "labels": st.just(labels),
            "objective": gen.poly_strategy(labels, 3, 3, gen.INT_COEFS),
            "sym_obj": st.one_of(st.none(), st.none(), gen.poly_strategy(labels, 2, 2, gen.SMALL_INT_COEFS, min_terms=1)),
            "calls": st.integers(0, 5).flatmap(lambda n: st.lists(
                _call(kind, labels), min_size=(1, 2, 2, 2, 3, 3)[n], max_size=(1, 2, 2, 2, 3, 3)[n])),
            "values": _values(),
            "cancel": st.one_of(st.none(), st.integers(0, 40)),
            "subs_form": _pick(["dict", "dict", "pairs", "seq"]),
            "readme": _pick([None, None, None, "to_qubo", "to_quso"]),
            # one linear term on a label of its own (no constraint touches it) whose coefficient is an exact number that
            # binary floating point cannot hold: it has to come through subs() unchanged
            "exact_term": _pick([None, None, None, ["I", 62, 1], ["I", 53, 1], ["F", 1, 3], ["F", -7, 10]]),
            "mag": _pick([0, 0, 0, 0, 0, -45, 30]),
        }))
    return st.sampled_from(["PCBO", "PCSO"]).flatmap(for_kind)


def reduction_specs():
    def for_kind(kind):
        return gen.label_pool(False, 3, 5).flatmap(lambda labels: st.fixed_dictionaries({
            "kind": st.just(kind),
            "labels": st.just(labels),
            "terms": st.builds(lambda hi, rest, at: rest[:at] + [hi] + rest[at:],
                               st.tuples(gen.key_strategy(labels, 4, min_deg=3), gen.MIXED_COEFS).map(list),
                               gen.poly_strategy(labels, 3, 4, gen.MIXED_COEFS), st.integers(0, 3)),
            "form": _pick(["to_qubo", "to_quso", "to_pubo", "to_puso"]),
            "deg": st.sampled_from([2, 2, 3]),
            "lam_mode": _pick(["const", "absv"]),
            "values": _values(),
            "cancel": st.one_of(st.none(), st.integers(0, 40)),
            "subs_form": _pick(["dict", "pairs", "two_arg"]),
        }))
    return st.sampled_from(["PUBO", "PUSO"]).flatmap(for_kind)


# ---------------------------------------------------------------------------
# helpers

def _symbols():
    import sympy
    return [sympy.Symbol(n) for n in ("lam0", "lam1", "lam2", "mu", "k")]


def _is_dyadic(v):
    return abs(v) < 1024 and float(v * 1024).is_integer()


def _has_symbols(v):
    return bool(getattr(v, "free_symbols", None))


def _snap(m):
    s = gen.snapshot(m)
    s["repr"] = {k: repr(v) for k, v in dict(m).items()}
    return s


def _do_subs(obj, syms, values, used, form, what):
    """Apply the substitution in the requested call form; returns the result."""
    pairs = [(syms[i], values[i]) for i in used]
    if not pairs:
        pairs = [(syms[0], values[0])]
    if form == "dict":
        return lib(obj.subs, dict(pairs), what=what)
    if form == "pairs":
        return lib(obj.subs, list(pairs), what=what)
    if form == "two_arg" and len(pairs) == 1:
        return lib(obj.subs, pairs[0][0], pairs[0][1], what=what)
    if form == "seq":
        cur = obj
        for n, (s, c) in enumerate(pairs):
            before = _snap(cur)
            nxt = lib(cur.subs, s, c, what=what)
            if _snap(cur) != before:
                raise Violation("subs_mutated_receiver/%s" % what, "step %d of sequential subs changed its receiver" % n)
            cur = nxt
        return cur
    return lib(obj.subs, dict(pairs), what=what)


def _mass(obj, syms, values):
    """Sum of |additive term| over all coefficients of the symbolic object at the
    substituted values: the magnitude against which rounding is measured (a
    coefficient that cancels has a tiny value but a large mass)."""
    import sympy
    submap = dict(zip(syms, values))
    tot = 0.0
    for v in dict(obj).values():
        if _has_symbols(v):
            for t in sympy.Add.make_args(sympy.expand(v)):
                tot += abs(float(t.subs(submap)))
        else:
            tot += abs(v)
    return tot


def _mass_abs(obj, syms, values):
    """As _mass, for coefficients that may contain Abs(...) (default reduction penalty of a
    symbolic model): Abs(e) is bounded by the mass of e."""
    import sympy
    submap = dict(zip(syms, values))
    tot = 0.0
    for v in dict(obj).values():
        if _has_symbols(v):
            v = v.replace(sympy.Abs, lambda e: sympy.Add(*[sympy.Abs(t) for t in sympy.Add.make_args(sympy.expand(e))]))
            for t in sympy.Add.make_args(sympy.expand(v)):
                tot += abs(float(t.subs(submap)))
        else:
            tot += abs(v)
    return tot


def _compare(B, N, exact, what, detail, mass=0.0):
    """B = symbolic.subs(...), N = numeric build.  Key set and coefficients."""
    db, dn = dict(B), dict(N)
    for k, v in db.items():
        if _has_symbols(v):
            raise Violation("symbol_remains/%s" % what, "key %r still %r after subs; %s" % (k, v, detail))
    from fractions import Fraction

    def is_exact_number(v):
        return isinstance(v, (int, Fraction)) and not isinstance(v, bool)
    # coefficients that are exact python numbers on the numeric side (big ints, Fractions) must be reproduced exactly;
    # they are kept out of the tolerance scale of the other keys
    exact_keys = {k for k, v in dn.items() if is_exact_number(v) and (isinstance(v, Fraction) or abs(v) >= 2 ** 53)}
    scale = sum(abs(v) for k, v in db.items() if k not in exact_keys) + \
        sum(abs(v) for k, v in dn.items() if k not in exact_keys) + mass
    tol = 0.0 if exact else 1e-9 * scale
    for k in exact_keys:
        a, b = db.get(k), dn.get(k)
        if a is None or type(a) is not type(b) or a != b:
            raise Violation("exact_coefficient_changed/%s" % what,
                            "key %r: numeric build has the exact number %r, the substituted model %r; %s" % (k, b, a, detail))
    for k in (db.keys() | dn.keys()) - exact_keys:
        a, b = db.get(k), dn.get(k)
        if a is None or b is None:
            present = a if b is None else b
            if abs(present) <= tol and not exact:
                continue
            raise Violation("keys_differ/%s" % what,
                            "key %r: subs-side %r, numeric-side %r; %s" % (k, a, b, detail))
        if a == 0 or b == 0:
            raise Violation("zero_coefficient_stored/%s" % what, "key %r: %r / %r; %s" % (k, a, b, detail))
        if not (a == b or abs(a - b) <= tol):
            raise Violation("coef_differs/%s" % what,
                            "key %r: subs-side %r, numeric-side %r (tol %g); %s" % (k, a, b, tol, detail))


def _compare_constraints(B, N, exact, detail):
    cb, cn = lib(lambda: B.constraints, what="constraints"), lib(lambda: N.constraints, what="constraints")
    if set(cb) != set(cn):
        raise Violation("constraints_differ/relations", "subs-side %r numeric-side %r; %s" % (cb, cn, detail))
    for r in cn:
        if len(cb[r]) != len(cn[r]):
            raise Violation("constraints_differ/count", "%s: subs-side %r numeric-side %r; %s" % (r, cb[r], cn[r], detail))
        for pb, pn in zip(cb[r], cn[r]):
            if type(pb) is not type(pn):
                raise Violation("constraints_differ/type", "%s: %s vs %s; %s" % (r, type(pb).__name__, type(pn).__name__, detail))
            _compare(pb, pn, exact, "constraint", detail)


def _solve_cancel(obj, syms, values, index, allowed):
    """Pick (deterministically by ``index``) a coefficient of ``obj`` that is affine
    in one allowed symbol once the others take their values, and return
    (symbol position, root) with root > 0; None if there is none."""
    cands = []
    pos = {s: i for i, s in enumerate(syms)}
    for key, v in dict(obj).items():
        fs = getattr(v, "free_symbols", None)
        if not fs:
            continue
        for t in sorted(fs, key=str):
            ti = pos.get(t)
            if ti is None or ti not in allowed:
                continue
            others = {s: values[pos[s]] for s in fs if s is not t and s in pos}
            try:
                e = v.subs(others)
                a = float(e.subs(t, 0))
                b = float(e.subs(t, 1)) - a
                if b == 0 or abs(float(e.subs(t, 3)) - (a + 3 * b)) > 1e-12 * (abs(a) + abs(b) + 1):
                    continue
            except (TypeError, ValueError):
                continue
            c = -a / b
            if c > 0 and c < 1000:
                cands.append((ti, c))
    if not cands:
        return None
    return cands[index % len(cands)]


# ---------------------------------------------------------------------------
# constraints sub-check

def _exact_bounds(P, spin):
    labels = ref.labels_of(P)
    vals = [ref.ref_value(P, a) for _, a in ref.all_assignments(labels, spin)]
    return min(vals), max(vals)


def _operand_obj(o):
    if o[0] == "l":
        return o[1]
    if o[0] == "not":
        return {(): 1, (o[1],): -1}
    return {(o[1], o[2]): 1}


def _build_constrained(qv, spec, w, numeric_values):
    """w[i] is the object used for symbol i (Symbol or number).  Bounds are always
    computed from the *numeric* polynomial (values of the spec)."""
    kind = spec["kind"]
    spin = kind == "PCSO"
    cls = gen.cls_of(qv, kind)
    H = gen.build(qv, kind, spec["objective"])
    et = spec.get("exact_term")
    if et:
        from fractions import Fraction
        H[("zz_exact",)] += (2 ** et[1] + et[2]) if et[0] == "I" else Fraction(et[1], et[2])
    if spec["sym_obj"]:
        H += w[MU] * cls(gen.terms_dict(spec["sym_obj"]))
    for c in spec["calls"]:
        m, lam = c["m"], w[c["sym"]]
        if c.get("lam0"):
            lam = 0
        if m in RELS:
            terms = [[tuple(k), v] for k, v in c["P"]]
            Pnum = gen.terms_dict(terms)
            P = dict(Pnum)
            if c.get("symP") is not None:
                keys = list(P)
                kk = keys[c["symP"] % len(keys)]
                Pnum[kk] = P[kk] * numeric_values[KP]
                P[kk] = P[kk] * w[KP]
            kw = {"lam": lam, "suppress_warnings": True}
            if m != "eq":
                kw["log_trick"] = c["log_trick"]
            if c["bounds"] != "none":
                mn, mx = _exact_bounds(Pnum, spin)
                kw["bounds"] = {"exact": (mn, mx), "min": (mn, None), "max": (None, mx)}[c["bounds"]]
            getattr(H, "add_constraint_%s_zero" % m)(P, **kw)
        else:
            ops = [_operand_obj(list(o)) for o in c["ops"]]
            getattr(H, "add_constraint_" + m)(*ops, lam=lam)
    return H


def run_constraints(spec, rec):
    import qubovert as qv
    with warnings.catch_warnings():
        warnings.simplefilter("ignore")
        _run_constraints(spec, rec, qv)


def _used_symbols(spec):
    used = []
    for c in spec["calls"]:
        if c["sym"] not in used:
            used.append(c["sym"])
        if c.get("symP") is not None and KP not in used:
            used.append(KP)
    if spec["sym_obj"] and MU not in used:
        used.append(MU)
    return sorted(used)


def _run_constraints(spec, rec, qv):
    kind = spec["kind"]
    syms = _symbols()
    values = list(spec["values"])
    used = _used_symbols(spec)
    classes = {kind, "subs_" + spec["subs_form"]}
    mag = spec.get("mag") or 0
    if mag:
        # the whole model scaled by a power of two: the objective's coefficients and every weight (not the symbol that
        # sits inside a constraint polynomial).  All comparisons are relative to the model's own magnitude.
        sc = 2.0 ** mag
        values = [v if i == KP else v * sc for i, v in enumerate(values)]
        spec = dict(spec, objective=[[k, v * sc] for k, v in spec["objective"]], values=values, cancel=None,
                    readme=None, exact_term=None)
        classes.add("magnitude=2^%d" % mag)
    weight_syms = {c["sym"] for c in spec["calls"]}
    classes.add("symbols_shared" if len(weight_syms) < len(spec["calls"]) else
                ("symbols_distinct" if len(spec["calls"]) > 1 else "single_call"))
    for c in spec["calls"]:
        classes.add("m_" + c["m"])
        if c["m"] in RELS:
            if c["m"] != "eq":
                classes.add("log_trick_%s" % bool(c["log_trick"]))
            classes.add("bounds_" + c["bounds"])
            if c.get("symP") is not None:
                classes.add("symbol_in_P")
    if spec["sym_obj"]:
        classes.add("symbolic_objective_term")

    # 1. symbolic build
    try:
        A = lib(_build_constrained, qv, spec, syms, values, what="build_symbolic")
        err_a = None
    except Violation as v:
        A, err_a = None, v
    if A is not None and spec["cancel"] is not None:
        hit = _solve_cancel(A, syms, values, spec["cancel"], allowed=weight_syms | ({MU} if spec["sym_obj"] else set()))
        if hit is not None:
            values[hit[0]] = hit[1]
            classes.add("cancel_value_solved")
    exact = all(_is_dyadic(values[i]) for i in used)
    classes.add("exact" if exact else "tolerance")

    # 2. numeric build
    try:
        N = lib(_build_constrained, qv, spec, values, values, what="build_numeric")
        err_n = None
    except Violation as v:
        N, err_n = None, v
    if err_a or err_n:
        ka = err_a.kind.replace("build_symbolic", "build") if err_a else None
        kn = err_n.kind.replace("build_numeric", "build") if err_n else None
        if ka == kn:
            rec.add("both_raise/" + ka)
            rec.case(spec, False, sorted(classes | {"both_raise"}))
            return
        if err_a:
            raise Violation("symbolic_only_" + err_a.kind, "numeric build succeeded; symbolic: %s" % err_a.detail)
        raise Violation("numeric_only_" + err_n.kind, "symbolic build succeeded; numeric: %s" % err_n.detail)

    detail = "kind=%s values=%r symbolic=%r" % (kind, {str(syms[i]): values[i] for i in used}, dict(A))

    # 3. subs, receiver unchanged
    before = _snap(A)
    B = _do_subs(A, syms, values, used, spec["subs_form"], "subs")
    if _snap(A) != before:
        raise Violation("subs_mutated_original", "before=%r after=%r" % (before, _snap(A)))
    if B is A:
        rec.add("observed/subs_returned_self")    # aliasing is not excluded by the statement: counted only

    # 4. same model
    if type(B) is not type(N) or type(B) is not gen.cls_of(qv, kind):
        raise Violation("type_differs", "subs-side %s numeric-side %s; %s" % (type(B).__name__, type(N).__name__, detail))
    mass = 0.0 if exact else _mass(A, syms, values)
    _compare(B, N, exact, "model", detail, mass)
    _compare_constraints(B, N, exact, detail)

    if set(dict(A)) - set(dict(N)):
        classes.add("cancel_hit")
    if B.num_ancillas != N.num_ancillas:
        rec.add("observed/num_ancillas_differs_after_subs")
    if B.mapping != N.mapping or B.variables != N.variables:
        rec.add("observed/mapping_or_variables_differ")

    # 5. README workflow: reduce the symbolic model with the default penalty, substitute afterwards
    # (with an exact big coefficient in the model the float arithmetic of the conversions is no longer exact, so the
    # README-workflow comparison, which relies on exactness, is left to the cases without one)
    if spec["readme"] and not spec.get("exact_term"):
        form = spec["readme"]
        same_shape = (list(dict(A)) == list(dict(N)) and A.mapping == N.mapping
                      and A.num_binary_variables == N.num_binary_variables)
        if same_shape and kind == "PCSO":
            # the reduction works on the boolean form; its term list must agree too (a boolean
            # coefficient can vanish at c although no spin coefficient does)
            same_shape = (list(dict(lib(qv.utils.puso_to_pubo, A, what="puso_to_pubo")))
                          == list(dict(lib(qv.utils.puso_to_pubo, N, what="puso_to_pubo"))))
        if not same_shape:
            rec.add("readme_skipped_shape")
        else:
            RA = lib(getattr(A, form), what=form + "(symbolic model)")
            RN = lib(getattr(N, form), what=form + "(numeric model)")
            snap = {k: repr(v) for k, v in dict(RA).items()}
            RB = _do_subs(RA, syms, values, used, "dict", "subs(%s)" % form)
            if {k: repr(v) for k, v in dict(RA).items()} != snap:
                raise Violation("subs_mutated_original/%s" % form, detail)
            if type(RB) is not type(RN):
                raise Violation("type_differs/%s" % form, "%s vs %s; %s" % (type(RB).__name__, type(RN).__name__, detail))
            _compare(RB, RN, exact, "readme_" + form, detail, 0.0 if exact else _mass_abs(RA, syms, values))
            classes.add("readme_" + form)

    # 6. "the same model" also means that building on continues identically: add one more
    # (numeric) constraint that needs ancillas to the substituted and to the numeric model
    labels = list(spec["labels"])
    if exact and len(labels) >= 2 and A.num_ancillas > 0:
        P2 = {(labels[0],): 1, (labels[1],): -1}
        with warnings.catch_warnings():
            warnings.simplefilter("ignore")
            lib(B.add_constraint_ne_zero, P2, what="continue(subs side)", lam=1)
            lib(N.add_constraint_ne_zero, P2, what="continue(numeric side)", lam=1)
        _compare(B, N, exact, "model_after_further_constraint", detail, 0.0)
        _compare_constraints(B, N, exact, detail)
        classes.add("continued_after_subs")

    # 7. "subs leaves the original model unchanged" also when the result is edited afterwards
    # (the result must not be the original object): B is not needed any more, so edit it
    def _edit():
        B[("__probe__",)] = 1
    lib(_edit, what="edit_result_of_subs")
    if _snap(A) != before:
        raise Violation("subs_result_aliases_original",
                        "editing the result of subs changed the symbolic model; %s" % detail)
    if any(c.get("lam0") for c in spec["calls"]):
        classes.add("record_only_constraint_with_symbol")

    nontrivial = A.num_ancillas > 0
    if nontrivial:
        classes.add("constraint_ancillas")
    rec.case(spec, nontrivial, sorted(classes))


# ---------------------------------------------------------------------------
# reductions sub-check

def run_reductions(spec, rec):
    import qubovert as qv
    with warnings.catch_warnings():
        warnings.simplefilter("ignore")
        _run_reductions(spec, rec, qv)


def _reduce(M, form, deg, lam):
    if form in ("to_qubo", "to_quso"):
        return getattr(M, form)(lam=lam)
    return getattr(M, form)(deg, lam=lam)


def _run_reductions(spec, rec, qv):
    kind, form, deg, mode = spec["kind"], spec["form"], spec["deg"], spec["lam_mode"]
    syms = _symbols()
    values = list(spec["values"])
    s = syms[0]
    classes = {kind, form, "lam_" + mode, "subs_" + spec["subs_form"]}
    if form in ("to_pubo", "to_puso"):
        classes.add("deg_%d" % deg)

    M = lib(gen.build, qv, kind, spec["terms"], what="build")
    msnap = gen.snapshot(M)
    nbv = M.num_binary_variables

    def lam_of(x):
        if mode == "const":
            return x
        return lambda v: x * abs(v)

    RA = lib(_reduce, M, form, deg, lam_of(s), what=form + "(symbolic lam)")
    if spec["cancel"] is not None:
        hit = _solve_cancel(RA, syms, values, spec["cancel"], allowed={0})
        if hit is not None:
            values[0] = hit[1]
            classes.add("cancel_value_solved")
    c = values[0]
    exact = _is_dyadic(c) and all(_is_dyadic(v) for _, v in spec["terms"])
    classes.add("exact" if exact else "tolerance")
    RN = lib(_reduce, M, form, deg, lam_of(c), what=form + "(numeric lam)")
    if gen.snapshot(M) != msnap:
        raise Violation("reduction_mutated_model/%s" % form, "before=%r after=%r" % (msnap, gen.snapshot(M)))
    detail = "%s %r .%s(deg=%r, lam %s) c=%r symbolic=%r" % (kind, dict(M), form, deg, mode, c, dict(RA))

    snap = {k: repr(v) for k, v in dict(RA).items()}
    RB = _do_subs(RA, syms, values, [0], spec["subs_form"], "subs")
    if {k: repr(v) for k, v in dict(RA).items()} != snap:
        raise Violation("subs_mutated_original/%s" % form, detail)
    if RB is RA:
        rec.add("observed/subs_returned_self")
    if type(RB) is not type(RN):
        raise Violation("type_differs/%s" % form, "%s vs %s; %s" % (type(RB).__name__, type(RN).__name__, detail))
    mass = 0.0 if exact else _mass(RA, syms, values)
    _compare(RB, RN, exact, form, detail, mass)
    if mode == "const":
        # documented: a non-callable lam means lam(v) = lam
        RC = lib(_reduce, M, form, deg, lambda v: c, what=form + "(callable constant lam)")
        _compare(RB, RC, exact, form + "/vs_callable_constant", detail, mass)

    labels = {l for k in dict(RA) for l in k}
    n_anc = len([l for l in labels if l >= nbv])
    if set(dict(RA)) - set(dict(RN)):
        classes.add("cancel_hit")
    if n_anc:
        classes.add("reduction_ancillas")
    rec.case(spec, n_anc > 0, sorted(classes))


def subchecks(tier):
    return [
        Sub("constraints", constraint_specs(), run_constraints, quick=2000, thorough=60000),
        Sub("reductions", reduction_specs(), run_reductions, quick=1500, thorough=40000),
    ]
