"""Shared runner: seeds, tiers, sharded Hypothesis execution, recorder -> evidence,
replay files, known findings.

A property module ``vf/cNN.py`` exposes

    ID, RULE, ASSUMPTIONS
    def subchecks(tier) -> [Sub(...)]

Every Sub has a Hypothesis strategy producing plain-data *specs* and a pure
``run_case(spec, rec)`` that raises ``Violation(kind, detail)``.  All randomness
lives in the strategies, so a spec replays without Hypothesis.
"""
import collections
import hashlib
import importlib
import json
import multiprocessing
import os
import sys
import time
import traceback

ROOT = os.path.dirname(os.path.dirname(os.path.abspath(__file__)))

# --------------------------------------------------------------------------
# exceptions


class Violation(Exception):
    """The property is violated on this case.  ``kind`` is a stable signature."""

    def __init__(self, kind, detail=""):
        super().__init__("%s: %s" % (kind, detail))
        self.kind = kind
        self.detail = str(detail)[:4000]


class HarnessError(Exception):
    pass


_PKG_MARK = os.sep + "qubovert" + os.sep


def lib_frame(exc):
    """Innermost frame of the traceback that lies inside the qubovert package."""
    tb = traceback.extract_tb(exc.__traceback__)
    for fr in reversed(tb):
        if _PKG_MARK in fr.filename and (os.sep + "vf" + os.sep) not in fr.filename:
            return "%s:%s" % (os.path.basename(fr.filename), fr.name)
    return None


def lib(func, *args, expect=(), what=None, **kwargs):
    """Call library code.  An exception not listed in ``expect`` that was raised
    from inside qubovert becomes a Violation bucketed by (type, innermost
    qubovert frame); expected ones are re-raised for the caller to handle."""
    try:
        return func(*args, **kwargs)
    except Violation:
        raise
    except expect:
        raise
    except Exception as e:  # noqa
        fr = lib_frame(e)
        name = what or getattr(func, "__name__", str(func))
        if fr is None:
            # raised in python builtins on behalf of the call (e.g. TypeError in
            # list.__add__) or in the harness; still attributable to the call
            fr = "outside-qubovert"
        raise Violation("exception/%s/%s@%s" % (name, type(e).__name__, fr),
                        "%s: %s" % (type(e).__name__, e)) from e


# --------------------------------------------------------------------------
# JSON with tuples / sets / non-finite floats preserved


def _enc(o):
    if isinstance(o, bool) or o is None or isinstance(o, (int, str)):
        return o
    if isinstance(o, float):
        if o != o:
            return {"__f": "nan"}
        if o in (float("inf"), float("-inf")):
            return {"__f": "inf" if o > 0 else "-inf"}
        return o
    if isinstance(o, tuple):
        return {"__t": [_enc(x) for x in o]}
    if isinstance(o, list):
        return [_enc(x) for x in o]
    if isinstance(o, (set, frozenset)):
        return {"__s": sorted((_enc(x) for x in o), key=lambda z: json.dumps(z, sort_keys=True))}
    if isinstance(o, dict):
        if all(isinstance(k, str) for k in o) and not any(k.startswith("__") and len(k) <= 3 for k in o):
            return {k: _enc(v) for k, v in o.items()}
        return {"__d": [[_enc(k), _enc(v)] for k, v in o.items()]}
    try:
        import numpy as np
        if isinstance(o, np.integer):
            return int(o)
        if isinstance(o, np.floating):
            return float(o)
    except Exception:  # pragma: no cover
        pass
    return {"__r": repr(o)}


def _dec(o):
    if isinstance(o, list):
        return [_dec(x) for x in o]
    if isinstance(o, dict):
        if "__t" in o and len(o) == 1:
            return tuple(_dec(x) for x in o["__t"])
        if "__s" in o and len(o) == 1:
            return frozenset(_dec(x) for x in o["__s"])
        if "__d" in o and len(o) == 1:
            return {_dec(k): _dec(v) for k, v in o["__d"]}
        if "__f" in o and len(o) == 1:
            return float(o["__f"])
        if "__r" in o and len(o) == 1:
            return o["__r"]
        return {k: _dec(v) for k, v in o.items()}
    return o


def jdumps(o, **kw):
    return json.dumps(_enc(o), **kw)


def jloads(s):
    return _dec(json.loads(s))


def spec_hash(spec):
    return hashlib.blake2b(jdumps(spec, sort_keys=True).encode(), digest_size=8).hexdigest()


# --------------------------------------------------------------------------
# recorder


class Recorder:
    MAX_SAMPLES = 6

    def __init__(self):
        self.evaluations = 0
        self.classes = collections.Counter()
        self.counters = collections.Counter()
        self.nontrivial = set()
        self.samples = []
        self._nt_samples = 0
        self.sub = "?"
        self.collected = {}

    def case(self, spec, nontrivial, classes=()):
        self.evaluations += 1
        self.classes[self.sub + "/cases"] += 1
        for c in classes:
            self.classes[self.sub + "/" + str(c)] += 1
        if nontrivial:
            h = spec_hash(spec)
            if h not in self.nontrivial:
                self.nontrivial.add(h)
            self.classes[self.sub + "/nontrivial"] += 1
            if self._nt_samples < self.MAX_SAMPLES:
                self._nt_samples += 1
                self.samples.append({"sub": self.sub, "nontrivial": True, "spec": spec})
        elif len(self.samples) < 2:
            self.samples.append({"sub": self.sub, "nontrivial": False, "spec": spec})

    def add(self, key, n=1):
        self.counters[key] += n

    def dump(self):
        return {
            "evaluations": self.evaluations,
            "classes": dict(self.classes),
            "counters": dict(self.counters),
            "nontrivial": sorted(self.nontrivial),
            "samples": _enc(self.samples),
            "collected": _enc(self.collected),
        }


# --------------------------------------------------------------------------
# run one case in a short-lived forked child (isolates memory growth of the code under test)


def forked(run_case):
    """Wrap ``run_case(spec, rec)`` so that each case runs in its own forked child process.
    The child's recorder entries, a Violation, or a harness error are passed back through a pipe.
    Used where the code under test leaks memory per call (the annealers' C wrapper never releases
    the result lists it builds), which would otherwise exhaust memory in long runs."""
    import pickle

    def wrapper(spec, rec):
        r, w = os.pipe()
        pid = os.fork()
        if pid == 0:
            code = 0
            try:
                os.close(r)
                child = Recorder()
                child.sub = rec.sub
                try:
                    run_case(spec, child)
                    out = ("ok", None, child)
                except Violation as v:
                    out = ("violation", (v.kind, v.detail), child)
                except BaseException as e:  # noqa
                    out = ("error", "".join(traceback.format_exception(type(e), e, e.__traceback__))[-4000:], child)
                c = out[2]
                payload = pickle.dumps((out[0], out[1], c.evaluations, dict(c.classes), dict(c.counters),
                                        sorted(c.nontrivial), c.samples))
                with os.fdopen(w, "wb") as f:
                    f.write(payload)
            except BaseException:  # noqa
                code = 3
            finally:
                os._exit(code)
        os.close(w)
        with os.fdopen(r, "rb") as f:
            data = f.read()
        _, status = os.waitpid(pid, 0)
        if not data:
            raise HarnessError("forked case died without a report (wait status %r)" % (status,))
        kind, info, ev, classes, counters, nontrivial, samples = pickle.loads(data)
        rec.evaluations += ev
        rec.classes.update(classes)
        rec.counters.update(counters)
        rec.nontrivial.update(nontrivial)
        for smp in samples:
            if len(rec.samples) < 2 * Recorder.MAX_SAMPLES:
                rec.samples.append(smp)
        if kind == "violation":
            raise Violation(info[0], info[1])
        if kind == "error":
            raise HarnessError("in forked case:\n" + info)
    return wrapper


# --------------------------------------------------------------------------
# sub-check description


class Sub:
    """One generated sub-check of a property.

    strategy : Hypothesis strategy of plain-data specs (or None for enumerate)
    run_case : callable(spec, rec) raising Violation
    quick / thorough : number of generated cases over all shards
    enumerate : optional callable(tier) -> iterable of specs (finite sub-domain,
                split over the shards round-robin and run completely)
    shrink_quick : keep Hypothesis' shrink phase in the quick tier
    """

    def __init__(self, name, strategy, run_case, quick, thorough,
                 enumerate=None, shrink_quick=True, max_shards=None):
        self.name, self.strategy, self.run_case = name, strategy, run_case
        self.quick, self.thorough = quick, thorough
        self.enumerate = enumerate
        self.shrink_quick = shrink_quick
        self.max_shards = max_shards


# --------------------------------------------------------------------------
# known findings


def load_known(prop):
    p = os.path.join(ROOT, "known_findings.json")
    if not os.path.exists(p):
        return []
    with open(p) as f:
        data = json.load(f)
    return [e for e in data.get("findings", []) if e.get("property") == prop]


def known_signatures(prop):
    return {e["signature"]: e for e in load_known(prop) if e.get("status") == "known"}


# --------------------------------------------------------------------------
# shard execution


_HEART = {"arr": None, "shard": 0}


def _beat(spec=None):
    a = _HEART["arr"]
    if a is not None:
        a[_HEART["shard"]] = time.time()
        d = _HEART.get("dir")
        if d and spec is not None:
            try:      # remember what this shard is working on, so that a stall can be diagnosed and replayed
                with open(os.path.join(d, "shard%d.cur" % _HEART["shard"]), "w") as f:
                    f.write(jdumps({"sub": _HEART.get("sub"), "spec": spec}))
            except Exception:
                pass


def _run_sub_hypothesis(sub, n, seed, rec, shrink, known, collect=False):
    import hypothesis
    from hypothesis import given, settings, HealthCheck, Phase, Verbosity

    state = {"target": None, "last": None}

    phases = [Phase.generate]
    if shrink:
        phases.append(Phase.shrink)

    def body(spec):
        _beat(spec)
        try:
            sub.run_case(spec, rec)
        except Violation as v:
            if v.kind in known:
                rec.add("excluded_known/" + v.kind)
                return
            if collect:
                rec.add("collected/" + v.kind)
                old = rec.collected.get(v.kind)
                size = len(jdumps(spec))
                if old is None or size < old["size"]:
                    rec.collected[v.kind] = {"sub": sub.name, "spec": spec, "kind": v.kind,
                                             "detail": v.detail, "size": size}
                return
            if state["target"] is None:
                state["target"] = v.kind
            elif state["target"] != v.kind:
                # a different root cause met while shrinking: do not slip
                rec.add("other_kind_during_shrink/" + v.kind)
                return
            state["last"] = {"spec": spec, "kind": v.kind, "detail": v.detail}
            raise

    test = given(sub.strategy)(body)
    test = settings(max_examples=max(1, n), database=None, deadline=None,
                    derandomize=False, report_multiple_bugs=False,
                    suppress_health_check=list(HealthCheck),
                    phases=phases, verbosity=Verbosity.quiet)(test)
    test = hypothesis.seed(seed)(test)
    try:
        test()
    except Violation:
        return state["last"]
    except hypothesis.errors.Flaky as e:  # includes FlakyFailure
        if state["last"] is not None:
            d = dict(state["last"])
            d["detail"] = "(reported flaky by Hypothesis) " + d["detail"]
            d["flaky"] = True
            return d
        raise HarnessError("flaky without recorded failure: %r" % (e,))
    return None


def _run_shard(args):
    modname, shard, nshards, tier, seed, collect = args
    t0 = time.time()
    _HEART["shard"] = shard
    _beat()
    try:
        import faulthandler
        import signal
        d = _HEART.get("dir")
        if d:
            _HEART["stackfile"] = open(os.path.join(d, "shard%d.stack" % shard), "w")
            faulthandler.register(signal.SIGUSR1, file=_HEART["stackfile"], all_threads=True)
            with open(os.path.join(d, "shard%d.pid" % shard), "w") as f:
                f.write(str(os.getpid()))
    except Exception:
        pass
    pycov = None
    if os.environ.get("VERIF_PYCOV") == "1" and _HEART.get("dir"):
        try:      # measured line coverage of the library under test (informational)
            os.environ.setdefault("COVERAGE_CORE", "sysmon")
            import coverage
            ov = os.environ.get("VERIF_OVERLAY", "")
            pycov = coverage.Coverage(data_file=os.path.join(_HEART["dir"], "pycov.%d" % shard),
                                      include=[os.path.join(ov, "qubovert", "*")], config_file=False)
            pycov.start()
        except Exception:
            pycov = None
    try:
        mod = importlib.import_module(modname)
        rec = Recorder()
        known = known_signatures(mod.ID)
        fail = None
        for sub in mod.subchecks(tier):
            rec.sub = sub.name
            _HEART["sub"] = sub.name
            total = sub.quick if tier == "quick" else sub.thorough
            ns = nshards if not sub.max_shards else min(nshards, sub.max_shards)
            if shard >= ns:
                continue
            if sub.enumerate is not None:
                for i, spec in enumerate(sub.enumerate(tier)):
                    if i % ns != shard:
                        continue
                    _beat(spec)
                    try:
                        sub.run_case(spec, rec)
                    except Violation as v:
                        if v.kind in known:
                            rec.add("excluded_known/" + v.kind)
                            continue
                        fail = {"spec": spec, "kind": v.kind, "detail": v.detail}
                        break
                if fail:
                    fail["sub"] = sub.name
                    break
                if sub.strategy is None:
                    continue
            n = max(1, total // ns)
            shrink = (tier == "thorough") or sub.shrink_quick
            f = _run_sub_hypothesis(sub, n, seed * 1000 + shard, rec, shrink, known, collect)
            if f:
                f["sub"] = sub.name
                fail = f
                break
        if pycov is not None:
            try:
                pycov.stop()
                pycov.save()
            except Exception:
                pass
        if _HEART["arr"] is not None:
            _HEART["arr"][shard] = -1.0      # finished
        return {"shard": shard, "rec": rec.dump(), "fail": _enc(fail) if fail else None,
                "error": None, "wall": time.time() - t0}
    except BaseException as e:  # harness fault inside the shard
        return {"shard": shard, "rec": None, "fail": None,
                "error": "".join(traceback.format_exception(type(e), e, e.__traceback__))[-6000:],
                "wall": time.time() - t0}


def replay_file(mod, path, rec=None):
    """Re-run a stored spec without Hypothesis.  Returns Violation or None."""
    with open(path) as f:
        data = jloads(f.read())
    rec = rec or Recorder()
    subs = {s.name: s for s in mod.subchecks("quick")}
    sub = subs.get(data["sub"])
    if sub is None:
        raise HarnessError("replay %s: unknown sub-check %r" % (path, data["sub"]))
    rec.sub = sub.name
    try:
        sub.run_case(data["spec"], rec)
    except Violation as v:
        return v
    return None


def write_replay(prop, fail):
    d = os.path.join(ROOT, "replays", prop)
    os.makedirs(d, exist_ok=True)
    body = {"property": prop, "sub": fail["sub"], "kind": fail["kind"],
            "detail": fail["detail"], "spec": fail["spec"]}
    body = _enc(body)
    h = hashlib.blake2b(json.dumps(body, sort_keys=True).encode(), digest_size=6).hexdigest()
    path = os.path.join(d, "%s-%s.json" % (fail["sub"], h))
    with open(path, "w") as f:
        json.dump(body, f, indent=1, sort_keys=True)
        f.write("\n")
    return path


def write_evidence(mod, tier, seed, merged, wall, violations, extra=None):
    cov = {
        "evaluations": merged["evaluations"],
        "distinct_nontrivial": len(merged["nontrivial"]),
        "rule": mod.RULE,
        "samples": merged["samples"][:10],
        "classes": dict(sorted(merged["classes"].items())),
        "counters": dict(sorted(merged["counters"].items())),
        "corpus_replayed": merged.get("corpus_replayed", 0),
        "shards": merged.get("shards", 0),
    }
    if extra:
        cov.update(extra)
    ev = {
        "property_id": mod.ID,
        "tier": tier,
        "seed": seed,
        "level": "exploration",
        "coverage": cov,
        "assumptions": list(getattr(mod, "ASSUMPTIONS", [])),
        "wall_s": round(wall, 2),
        "violations": violations,
    }
    # evidence/ describes /repo only: a run against another tree (VERIF_REPO: mutants, seeded changes) writes elsewhere
    other = os.path.realpath(os.environ.get("VERIF_REPO", "/repo")) != os.path.realpath("/repo")
    edir = os.path.join(ROOT, ".run", "evidence_other_tree") if other else os.path.join(ROOT, "evidence")
    os.makedirs(edir, exist_ok=True)
    p = os.path.join(edir, mod.ID + ".json")
    tmp = p + ".tmp"
    with open(tmp, "w") as f:
        json.dump(ev, f, indent=1, sort_keys=True)
        f.write("\n")
    os.replace(tmp, p)
    return p


def merge(results):
    m = {"evaluations": 0, "classes": collections.Counter(), "counters": collections.Counter(),
         "nontrivial": set(), "samples": [], "shards": len(results)}
    per = []
    for r in results:
        rec = r["rec"]
        if not rec:
            continue
        m["evaluations"] += rec["evaluations"]
        m["classes"].update(rec["classes"])
        m["counters"].update(rec["counters"])
        m["nontrivial"].update(rec["nontrivial"])
        per.append(rec["samples"])
        for k, c in (rec.get("collected") or {}).items():
            old = m.setdefault("collected", {}).get(k)
            if old is None or c["size"] < old["size"]:
                m["collected"][k] = c
    # interleave samples of the shards, non-trivial first
    flat = [s for ss in zip(*[p + [None] * 8 for p in per]) for s in ss if s] if per else []
    flat.sort(key=lambda s: not s.get("nontrivial"))
    seen, out = set(), []
    for s in flat:
        key = s["sub"]
        if sum(1 for o in out if o["sub"] == key) >= 3:
            continue
        h = json.dumps(s, sort_keys=True)
        if h in seen:
            continue
        seen.add(h)
        out.append(s)
    m["samples"] = out
    return m


def run_property(modname, tier, seed, nshards=None, collect=False):
    """Parent: corpus replay, known findings, sharded run, evidence, verdict."""
    t0 = time.time()
    mod = importlib.import_module(modname)
    prop = mod.ID
    if nshards is None:
        nshards = int(os.environ.get("VERIF_SHARDS", "0")) or (16 if tier == "thorough" else 12)

    if hasattr(mod, "prepare"):
        mod.prepare(tier)

    # 1. known findings: replay the stored reproducer
    for e in load_known(prop):
        if e.get("status") != "known":
            continue
        rp = os.path.join(ROOT, e["replay"])
        v = replay_file(mod, rp)
        if v is not None and v.kind == e["signature"]:
            print("KNOWN-FINDING: property=%s %s [%s]" % (prop, e["what"], e["signature"]))
        elif v is not None:
            path = rp
            print("VIOLATION property=%s replay=%s" % (prop, path))
            print("  known reproducer now fails differently: %s" % v)
            return 1
        else:
            print("note: known finding %s no longer reproduces" % e["signature"])

    # 2. corpus (regression cases, bypass Hypothesis)
    cdir = os.path.join(ROOT, "corpus", prop)
    known = known_signatures(prop)
    corpus_rec = Recorder()
    n_corpus = 0
    if os.path.isdir(cdir):
        for fn in sorted(os.listdir(cdir)):
            if not fn.endswith(".json"):
                continue
            n_corpus += 1
            v = replay_file(mod, os.path.join(cdir, fn), corpus_rec)
            if v is not None and v.kind not in known:
                wall = time.time() - t0
                m = merge([{"rec": corpus_rec.dump()}])
                m["corpus_replayed"] = n_corpus
                _pad(m)
                write_evidence(mod, tier, seed, m, wall, 1)
                print("VIOLATION property=%s replay=%s" % (prop, os.path.join(cdir, fn)))
                print("  %s" % v)
                return 1

    # 3. generated search, sharded
    ctx = multiprocessing.get_context("fork")
    jobs = [(modname, i, nshards, tier, seed, collect) for i in range(nshards)]
    limit = float(os.environ.get("VERIF_TIMEOUT", "0")) or (1500.0 if tier == "quick" else 6 * 3600.0)
    stall = float(os.environ.get("VERIF_STALL", "0")) or 300.0
    _HEART["arr"] = ctx.Array("d", [time.time()] * nshards, lock=False)
    _HEART["dir"] = os.path.join(ROOT, ".run", "%s-%d" % (prop, os.getpid()))
    os.makedirs(_HEART["dir"], exist_ok=True)
    import atexit
    import shutil
    atexit.register(shutil.rmtree, _HEART["dir"], True)
    pool = ctx.Pool(nshards)
    try:
        ar = pool.map_async(_run_shard, jobs, chunksize=1)
        t_start = time.time()
        reason = None
        while True:
            ar.wait(5.0)
            if ar.ready():
                break
            now = time.time()
            if now - t_start > limit:
                reason = "shards did not finish within %.0f s" % limit
                break
            # a shard whose process has vanished while it was working on a case: the interpreter died inside the code
            # under test (abort / segmentation fault).  The case is replayed in a fresh interpreter; if that one dies by
            # a signal as well the crash is a reproducible property of the input and is reported as a violation,
            # otherwise the run is inconclusive.
            dead = _dead_shards(nshards)
            if dead:
                time.sleep(1.0)
                crash = _confirm_crash(prop, dead[0])
                pool.terminate()
                _kill_children()
                if crash:
                    path, sig, sub = crash
                    m0 = {"evaluations": 0, "classes": collections.Counter(), "counters": collections.Counter(),
                          "nontrivial": set(), "samples": [], "shards": nshards, "corpus_replayed": n_corpus}
                    write_evidence(mod, tier, seed, m0, time.time() - t0, 1)
                    print("VIOLATION property=%s replay=%s" % (prop, path))
                    print("  sub=%s kind=interpreter_crash/signal_%d\n  the interpreter died (signal %d) inside the code under test "
                          "while running this case, and dies again when the case is replayed in a fresh interpreter" % (sub, sig, sig))
                    return 1
                reason = "shard %d died and the case it was running does not crash a fresh interpreter" % dead[0]
                break
            # a shard that has started a case more than `stall` seconds ago and shown no sign of life since is
            # stuck inside the code under test (e.g. a C kernel spinning or deadlocked after heap corruption)
            stuck = [i for i in range(nshards) if _HEART["arr"][i] > 0 and now - _HEART["arr"][i] > stall]
            if stuck:
                reason = "shard(s) %r made no progress for %.0f s" % (stuck, stall)
                try:      # where is it stuck? (python stack of the shard, via faulthandler)
                    import signal
                    pid = int(open(os.path.join(_HEART["dir"], "shard%d.pid" % stuck[0])).read())
                    os.kill(pid, signal.SIGUSR1)
                    time.sleep(1.0)
                    st = open(os.path.join(_HEART["dir"], "shard%d.stack" % stuck[0])).read()
                    sys.stderr.write("python stack of stuck shard %d:\n%s\n" % (stuck[0], st[-3000:]))
                except Exception:
                    pass
                try:      # keep the case the first stuck shard was working on
                    cur = open(os.path.join(_HEART["dir"], "shard%d.cur" % stuck[0])).read()
                    os.makedirs(os.path.join(ROOT, "replays", prop), exist_ok=True)
                    sp = os.path.join(ROOT, "replays", prop, "stuck-%d.json" % os.getpid())
                    d = json.loads(cur)
                    d.update({"property": prop, "kind": "stalled", "detail": reason})
                    with open(sp, "w") as f:
                        json.dump(d, f)
                    reason += "; case saved to %s" % sp
                except Exception:
                    pass
                break
        if reason:
            # a time budget hit is inconclusive, never a violation
            pool.terminate()
            _kill_children()
            sys.stderr.write("HARNESS ERROR: %s (hang in the code under test or overloaded machine) - inconclusive\n" % reason)
            print("INCONCLUSIVE property=%s %s" % (prop, reason))
            return 2
        results = ar.get()
    finally:
        pool.terminate()
        pool.join()
    errors = [r for r in results if r["error"]]
    if errors:
        sys.stderr.write("HARNESS ERROR in shard %d:\n%s\n" % (errors[0]["shard"], errors[0]["error"]))
        return 2
    results.append({"rec": corpus_rec.dump()})
    m = merge(results)
    m["corpus_replayed"] = n_corpus
    fails = [r for r in results if r.get("fail")]
    # 4. coverage-guided campaign over the same strategies and oracles (thorough tier; VERIF_CGF=1 forces, =0 disables)
    cgf_stats = None
    want = os.environ.get("VERIF_CGF", "")
    if not fails and not collect and want != "0" and (tier == "thorough" or want == "1"):
        budgets = cgf_budgets(mod, tier)
        if budgets:
            from . import cgf
            f, err, info = cgf.campaign(mod, seed, os.environ.get("VERIF_OVERLAY", ""), budgets, workers=nshards)
            cgf_stats = info.get("stats", info)
            if err:
                # a worker of the add-on stage that ran out of memory / time or died is a budget or tooling matter:
                # the campaign is inconclusive (recorded in the evidence), the verdict rests on the stages that completed
                sys.stderr.write("note: coverage-guided campaign inconclusive: %s\n" % err[-1500:])
                if isinstance(cgf_stats, dict):
                    cgf_stats["inconclusive"] = err[-600:]
            if info.get("recs"):
                m2 = merge(results + info["recs"])
                m2["corpus_replayed"] = n_corpus
                m = m2
            if f:
                fails = [{"fail": _enc(f)}]
    wall = time.time() - t0
    if collect:
        for k, c in sorted((m.get("collected") or {}).items()):
            c = _dec(c)
            path = write_replay(prop, c)
            print("COLLECTED kind=%s n=%d replay=%s\n    %s" % (
                k, m["counters"].get("collected/" + k, 0), path, c["detail"][:300]))
    extra = {}
    if hasattr(mod, "extra_evidence"):
        extra = mod.extra_evidence(tier, m) or {}
    if cgf_stats is not None:
        extra["coverage_guided"] = cgf_stats
    if os.environ.get("VERIF_PYCOV") == "1":
        pc = _combine_pycov(_HEART["dir"], prop)
        if pc:
            extra["python_line_coverage_of_library"] = pc
    write_evidence(mod, tier, seed, m, wall, len(fails), extra)
    if fails:
        f = _dec(fails[0]["fail"])
        path = write_replay(prop, f)
        print("VIOLATION property=%s replay=%s" % (prop, path))
        print("  sub=%s kind=%s\n  %s" % (f["sub"], f["kind"], f["detail"][:1500]))
        return 1
    print("OK property=%s tier=%s seed=%d evaluations=%d distinct_nontrivial=%d wall=%.1fs" %
          (prop, tier, seed, m["evaluations"], len(m["nontrivial"]), wall))
    return 0


def cgf_budgets(mod, tier):
    """libFuzzer runs per sub-check for the coverage-guided campaign.  A module may set ``CGF = False`` (not
    applicable: statistical or out-of-process oracles) or ``CGF = {sub: runs}``; the default is a quarter of the
    thorough budget of every sub-check that has a strategy, between 4 000 and 60 000 runs (quick: a tenth)."""
    spec = getattr(mod, "CGF", None)
    if spec is False:
        return {}
    out = {}
    for sub in mod.subchecks(tier):
        if sub.strategy is None:
            continue
        if isinstance(spec, dict):
            n = spec.get(sub.name, 0)
        else:
            n = min(60000, max(4000, sub.thorough // 4))
        if tier == "quick":
            n = n // 10
        if n > 0:
            out[sub.name] = n
    return out


def _combine_pycov(d, prop):
    """Combine the shards' coverage data; per library file: executable lines, covered lines, missing line numbers.
    The full report is also written to .run/pycov-<ID>.json for development."""
    try:
        import glob
        import coverage
        files = glob.glob(os.path.join(d, "pycov.*"))
        if not files:
            return None
        cov = coverage.Coverage(data_file=os.path.join(d, "pycov-combined"), config_file=False)
        cov.combine(files, keep=True)
        data = cov.get_data()
        out = {}
        for fn in sorted(data.measured_files()):
            try:
                _, stmts, _, missing, _ = cov.analysis2(fn)
            except Exception:
                continue
            rel = fn.split(os.sep + "qubovert" + os.sep, 1)[-1]
            out[rel] = {"statements": len(stmts), "covered": len(stmts) - len(missing), "missing": missing}
        os.makedirs(os.path.join(ROOT, ".run"), exist_ok=True)
        with open(os.path.join(ROOT, ".run", "pycov-%s.json" % prop), "w") as f:
            json.dump(out, f)
        return {k: {"statements": v["statements"], "covered": v["covered"]} for k, v in out.items()}
    except Exception as e:  # informational only
        return {"error": repr(e)}


def _pad(m):
    return m


def _dead_shards(nshards):
    out = []
    d = _HEART.get("dir")
    for i in range(nshards):
        if not _HEART["arr"][i] > 0:
            continue                      # finished (-1) or not started
        try:
            pid = int(open(os.path.join(d, "shard%d.pid" % i)).read())
        except Exception:
            continue
        alive = os.path.exists("/proc/%d" % pid)
        if alive:
            try:
                with open("/proc/%d/stat" % pid) as f:
                    alive = f.read().rsplit(")", 1)[1].split()[0] != "Z"
            except Exception:
                alive = False
        if not alive:
            out.append(i)
    return out


def _confirm_crash(prop, shard):
    """Replay the case the dead shard was running in a fresh interpreter.  -> (replay path, signal, sub) or None."""
    import subprocess
    try:
        cur = json.loads(open(os.path.join(_HEART["dir"], "shard%d.cur" % shard)).read())
        body = {"property": prop, "sub": cur.get("sub"), "kind": "interpreter_crash",
                "detail": "the interpreter died inside the code under test while running this case", "spec": cur["spec"]}
        d = os.path.join(ROOT, "replays", prop)
        os.makedirs(d, exist_ok=True)
        h = hashlib.blake2b(json.dumps(body, sort_keys=True).encode(), digest_size=6).hexdigest()
        path = os.path.join(d, "%s-crash-%s.json" % (cur.get("sub"), h))
        with open(path, "w") as f:
            json.dump(body, f, indent=1, sort_keys=True)
        r = subprocess.run([sys.executable, "-W", "ignore", "-m", "vf.main", prop, "--replay", path], cwd=ROOT,
                           capture_output=True, text=True, timeout=900)
        if r.returncode < 0:
            return path, -r.returncode, cur.get("sub")
        if r.returncode in (134, 139):      # shell-style codes, should a wrapper be in between
            return path, r.returncode - 128, cur.get("sub")
    except Exception:
        return None
    return None


def _kill_children():
    """Forked shards stuck inside C code ignore terminate(); kill them hard."""
    import signal
    me = os.getpid()
    try:
        for pid in os.listdir("/proc"):
            if not pid.isdigit():
                continue
            try:
                with open("/proc/%s/stat" % pid) as f:
                    parts = f.read().rsplit(")", 1)[1].split()
                if int(parts[1]) == me:
                    os.kill(int(pid), signal.SIGKILL)
            except (OSError, IndexError, ValueError):
                continue
    except OSError:
        pass
