"""C15 — approximate extrema always enclose the true extrema.

extrema : approximate_{pubo,qubo,puso,quso}_extrema(model) versus the exact
          minimum / maximum of the truth table of the *generated* polynomial
          (reference evaluator, the library is never asked for a value).
atr     : anneal_temperature_range(model, start, end, spin) on the same models
          for admissible probability pairs: finite T0 >= Tf >= 0, and (0, 0)
          for a model without variables.
exact   : the same enclosure for coefficients that binary floating point cannot hold (fractions.Fraction,
          integers beyond 2**53), judged in exact arithmetic.
atr_stale : models whose non-constant terms all cancelled ("stale": cached
          variables, no variable terms) in a class of their own, every finding
          there carries the kind prefix ``atr_stale_model/``.
"""
import functools
import math
import numbers
import warnings

from hypothesis import strategies as st

from . import gen, ref
from .common import Sub, Violation, lib

ID = "C15"
RULE = ("Models of all ten types (built by successive += or from a dict, keys with unsorted / repeated labels, optional "
        "cancelling term pairs that leave partially stale bookkeeping) and raw dicts (unsorted / repeated labels, occasional "
        "zero coefficients), n <= 8 labels from int / negative int / str / tuple pools, degree <= 5, dyadic coefficients "
        "(a float class with stated tolerance 1e-9*sum|coef|). extrema: every documented approximate_*_extrema function for "
        "the kind against min / max of the 2^n truth table; constants need lo == hi == c. atr: 1-4 admissible "
        "(start, end) pairs per model from a grid incl. 0, equal values, 5e-324 and 1-2^-53, plus free floats, spin flag = "
        "model kind. atr_stale: fully cancelled models (item -=, model -= copy, *= 0, cancelling term list; boolean raw "
        "dicts whose terms cancel inside the conversion). Non-trivial = coefficients of both signs and >= 2 variables in "
        "the canonical polynomial. Distinct = distinct spec hash.")
ASSUMPTIONS = [
    "a raw dict is the polynomial sum(coef * prod(labels of the key with repetitions)); enclosure is judged against that function",
    "'constant model' is judged syntactically for raw dicts (only the () key or empty) and by the canonical polynomial for model objects; "
    "a raw spin dict such as {(0,0): 1} (constant function, non-constant syntax) only needs the enclosure",
    "approximate_qubo/quso_extrema get raw dicts only when every raw key has length <= 2; pubo/puso variants get dict, P*BO/P*SO, PC*O and "
    "P*Matrix objects; qubo/quso variants get dict, QUBO/QUSO and their Matrix objects (as documented)",
    "anneal_temperature_range: admissible = 0 <= end <= start < 1 (the code accepts equality); '(0, 0) for a model without variables' is demanded "
    "for raw dicts without any label, for model objects no label ever entered, and (separate class, distinct kind) for fully cancelled models",
    "float-coefficient class: tolerance 1e-9 * sum(|coef|) on the enclosure; all other classes compare exactly (dyadic coefficients)",
    "_get_bounds (private helper named in the anchors) is exercised for PUBO / PCBO only, skipped if absent",
]

POOLS8 = [
    [0, 1, 2, 3, 4, 5, 6, 7],
    ["a", "b", "c", "d", "e", "f", "g", "h"],
    [0, "a", 1, "b", ("x", 1), -3, "c", 2],
    [("x", 0), ("x", 1), ("y", 0), "z", 2, 7, -1, "w"],
    [3, 1, 4, 15, 9, 2, 6, 5],
    ["x0", "x1", "y", -1, 0, ("t",), ("t", 2), 10],
]
INT_POOLS8 = [
    [0, 1, 2, 3, 4, 5, 6, 7],
    [0, 2, 3, 5, 7, 8, 10, 11],
    [1, 2, 4, 3, 6, 5, 8, 7],
    [5, 3, 0, 1, 2, 4, 7, 6],
]

DICT_KINDS = ["dict_bool", "dict_spin"]
KINDS = gen.ALL_KINDS + DICT_KINDS + DICT_KINDS

PROB_GRID = [0.0, 5e-324, 1e-300, 1e-9, 0.01, 0.1, 0.25, 0.5, 0.75, 0.9, 0.99, 0.999999, 1.0 - 2.0 ** -53]


def _is_dict(kind):
    return kind in DICT_KINDS


def _pool(kind, n_min=1, n_max=8):
    pools = INT_POOLS8 if gen.is_matrix(kind) else POOLS8 + INT_POOLS8[:2]
    return st.builds(lambda p, n: list(p[:n]), st.sampled_from(pools), st.integers(n_min, n_max))


def _coefs(kind, mode):
    if mode == "float":
        return gen.FLOAT_COEFS
    if mode == "tiny":
        return gen.TINY_COEFS
    if mode == "huge":
        return gen.HUGE_COEFS
    if mode == "stale":
        return st.one_of(gen.DYADIC_COEFS, gen.INT_COEFS)
    base = st.one_of(gen.DYADIC_COEFS, gen.MIXED_COEFS)
    if _is_dict(kind):
        # a raw dict may hold a zero value
        return st.one_of(base, base, base, base, st.just(0))
    return base


@functools.lru_cache(maxsize=None)
def _terms(kind, labels, mode):
    """Strategy of term lists; cached per (kind, labels, mode) so that Hypothesis
    validates each strategy object once instead of once per example."""
    labels = list(labels)
    coefs = _coefs(kind, mode)
    min_terms, offset = (1, False) if mode == "stale" else (0, True)
    quad = gen.is_quad(kind)
    spin = gen.is_spin(kind)
    if _is_dict(kind):
        return st.one_of(
            gen.poly_strategy(labels, 10, 5, coefs, repeats=True, offset=offset, min_terms=min_terms),
            gen.poly_strategy(labels, 10, 5, coefs, repeats=False, offset=offset, min_terms=min_terms),
            gen.poly_strategy(labels, 8, 2, coefs, repeats=True, offset=offset, min_terms=min_terms),
        )
    return st.one_of(
        gen.poly_strategy(labels, 10, 5, coefs, repeats=True, offset=offset, min_terms=min_terms, quad=quad, spin=spin),
        gen.poly_strategy(labels, 10, 5, coefs, repeats=False, offset=offset, min_terms=min_terms, quad=quad, spin=spin),
    )


def _add_cancel(terms, picks):
    """Append, for the picked terms, a term with a rotated key and the opposite
    coefficient (cancels inside a model object)."""
    out = [list(t) for t in terms]
    if terms:
        for p in picks:
            k, v = terms[p % len(terms)]
            k = tuple(k)
            out.append([k[1:] + k[:1], -v])
    return out


_KIND = st.sampled_from(KINDS)
_MODE = st.sampled_from(["dyadic", "dyadic", "dyadic", "float", "dyadic", "dyadic", "tiny", "huge"])
_BUILD = st.sampled_from(["iadd", "init"])
_PICKS = st.one_of(st.just([]), st.just([]), st.lists(st.integers(0, 20), min_size=1, max_size=3))
_POOLS = {k: _pool(k) for k in KINDS}


@st.composite
def model_strategy(draw):
    kind = draw(_KIND)
    mode = draw(_MODE)
    labels = draw(_POOLS[kind])
    terms = draw(_terms(kind, tuple(labels), mode))
    if mode != "float":
        # no cancelling pairs with arbitrary floats: exact cancellation would depend on summation order
        terms = _add_cancel(terms, draw(_PICKS))
    return {"kind": kind, "labels": labels, "terms": terms, "build": draw(_BUILD), "float": mode == "float",
            "ctype": draw(gen.CTYPE)}


_PROB = st.one_of(st.sampled_from(PROB_GRID), st.sampled_from(PROB_GRID),
                  st.floats(min_value=0.0, max_value=1.0, exclude_max=True, allow_nan=False))
_PROB_PAIR = st.one_of(
    st.tuples(_PROB, _PROB).map(lambda t: [max(t), min(t)]),
    _PROB.map(lambda x: [x, x]),
    _PROB.map(lambda x: [x, 0.0]),
)
_PROB_PAIRS = st.lists(_PROB_PAIR, min_size=1, max_size=4)


# ---------------------------------------------------------------------------
# reference side

def squash(key, spin):
    key = tuple(key)
    if spin:
        return frozenset(l for l in set(key) if key.count(l) % 2)
    return frozenset(key)


def canon_terms(terms, spin):
    """Canonical polynomial (frozenset -> coef) of a term *list* (duplicates add up)."""
    out = {}
    for k, v in terms:
        k = squash(k, spin)
        nv = out.get(k, 0) + v
        if nv == 0:
            out.pop(k, None)
        else:
            out[k] = nv
    return out


def table_terms(terms, labels, spin):
    """Truth table of a term list; keys are evaluated with repetitions."""
    import numpy as np
    n = len(labels)
    pos = {l: i for i, l in enumerate(labels)}
    cols = ref.columns(n, spin)
    out = np.zeros(1 << n, dtype=np.float64)
    for k, v in terms:
        t = np.full(1 << n, float(v), dtype=np.float64)
        for l in k:
            t = t * cols[pos[l]]
        out += t
    return out


def build_obj(qv, spec):
    kind = spec["kind"]
    terms = [(tuple(k), gen.wrap_number(v, spec.get("ctype"))) for k, v in spec["terms"]]
    if _is_dict(kind):
        return gen.terms_dict(terms)
    if spec.get("build", "iadd") == "init":
        return lib(gen.build_from_dict, qv, kind, terms, what="build")
    return lib(gen.build, qv, kind, terms, what="build")


def classify(spec):
    kind = spec["kind"]
    spin = gen.is_spin(kind)
    terms = [(tuple(k), v) for k, v in spec["terms"]]
    can = canon_terms(terms, spin)
    vars_true = set()
    for k in can:
        vars_true |= k
    signs = {v > 0 for k, v in can.items() if k}
    nontrivial = len(signs) == 2 and len(vars_true) >= 2
    if _is_dict(kind):
        syntactic_const = all(len(k) == 0 for k, _ in terms)
    else:
        # no label can ever have entered the model: every key squashes to ()
        syntactic_const = all(len(squash(k, spin)) == 0 or v == 0 for k, v in terms)
    func_const = not any(can)
    return spin, terms, can, nontrivial, syntactic_const, func_const


def _fn_names(kind, terms):
    # raw dicts go to the quadratic variants when every key denotes a monomial of at most two variables (for spins a
    # label repeated an even number of times drops out: {(0, 1, 2, 2): 3} is the quadratic term 3 z0 z1)
    short = all(len(squash(k, kind == "dict_spin")) <= 2 for k, _ in terms)
    if kind == "dict_bool":
        return ["approximate_pubo_extrema"] + (["approximate_qubo_extrema"] if short else [])
    if kind == "dict_spin":
        return ["approximate_puso_extrema"] + (["approximate_quso_extrema"] if short else [])
    return {
        "PUBO": ["approximate_pubo_extrema"], "PCBO": ["approximate_pubo_extrema"],
        "PUBOMatrix": ["approximate_pubo_extrema"],
        "QUBO": ["approximate_qubo_extrema"], "QUBOMatrix": ["approximate_qubo_extrema"],
        "PUSO": ["approximate_puso_extrema"], "PCSO": ["approximate_puso_extrema"],
        "PUSOMatrix": ["approximate_puso_extrema"],
        "QUSO": ["approximate_quso_extrema"], "QUSOMatrix": ["approximate_quso_extrema"],
    }[kind]


def _pair(res, what, detail):
    if not isinstance(res, tuple) or len(res) != 2:
        raise Violation("not_a_pair/%s" % what, "returned %r; %s" % (res, detail))
    a, b = res
    for x in (a, b):
        if isinstance(x, bool) or not isinstance(x, numbers.Real) or not math.isfinite(x):
            raise Violation("not_finite_number/%s" % what, "returned %r; %s" % (res, detail))
    return a, b


# ---------------------------------------------------------------------------
# extrema

def run_extrema(spec, rec):
    import qubovert as qv
    with warnings.catch_warnings():
        warnings.simplefilter("ignore")
        _extrema(spec, rec, qv)


def _extrema(spec, rec, qv):
    kind, labels = spec["kind"], list(spec["labels"])
    spin, terms, can, nontrivial, syn_const, func_const = classify(spec)
    obj = build_obj(qv, spec)
    tab = table_terms(terms, labels, spin)
    tmin, tmax = float(tab.min()), float(tab.max())
    tol = 1e-9 * sum(abs(v) for _, v in terms) if spec.get("float") else 0.0
    detail = "kind=%s build=%s terms=%r" % (kind, spec.get("build"), terms)
    classes = [kind, "float_coefs" if spec.get("float") else "dyadic_coefs"]
    if any(len(set(k)) != len(k) for k, _ in terms):
        classes.append("repeated_labels")
    if syn_const:
        classes.append("constant")
    elif func_const:
        classes.append("cancelled_to_constant")

    for name in _fn_names(kind, terms):
        fn = getattr(qv.utils, name)
        lo, hi = _pair(lib(fn, obj, what=name), name, detail)
        short = name.replace("approximate_", "").replace("_extrema", "")
        if lo > tmin + tol:
            raise Violation("lower_bound_above_min/%s" % short,
                            "%s -> (%r, %r) but true min %r; %s" % (name, lo, hi, tmin, detail))
        if hi < tmax - tol:
            raise Violation("upper_bound_below_max/%s" % short,
                            "%s -> (%r, %r) but true max %r; %s" % (name, lo, hi, tmax, detail))
        const_model = syn_const if _is_dict(kind) else func_const
        if const_model:
            c = sum(v for _, v in terms) if _is_dict(kind) else can.get(frozenset(), 0)
            ok = (abs(lo - c) <= tol and abs(hi - c) <= tol) if tol else (lo == c and hi == c)
            if not ok:
                raise Violation("constant_not_exact/%s" % short,
                                "%s -> (%r, %r) for the constant model %r; %s" % (name, lo, hi, c, detail))
        classes.append(short)

    gb = getattr(getattr(qv, "_pcbo", None), "_get_bounds", None)
    if kind in ("PUBO", "PCBO") and gb is not None:
        b = spec.get("bound", 3)
        got = lib(gb, obj, None, what="_get_bounds")
        lo, hi = _pair(tuple(got), "_get_bounds", detail)
        got_lo = tuple(lib(gb, obj, (None, b), what="_get_bounds"))
        got_hi = tuple(lib(gb, obj, (b, None), what="_get_bounds"))
        if lo > tmin + tol or hi < tmax - tol:
            raise Violation("get_bounds_not_enclosing", "_get_bounds(P, None) -> %r, true (%r, %r); %s" % (got, tmin, tmax, detail))
        if len(got_lo) != 2 or got_lo[1] != b or got_lo[0] > tmin + tol:
            raise Violation("get_bounds_partial", "_get_bounds(P, (None, %r)) -> %r, true min %r; %s" % (b, got_lo, tmin, detail))
        if len(got_hi) != 2 or got_hi[0] != b or got_hi[1] < tmax - tol:
            raise Violation("get_bounds_partial", "_get_bounds(P, (%r, None)) -> %r, true max %r; %s" % (b, got_hi, tmax, detail))
        classes.append("get_bounds")

    rec.case(spec, nontrivial, classes)


# ---------------------------------------------------------------------------
# anneal_temperature_range

def _check_range(res, s, e, no_vars, what, detail):
    T0, Tf = _pair(res, what, detail)
    if not (T0 >= Tf):
        raise Violation("T0_lt_Tf/%s" % what, "(%r, %r) for start=%r end=%r; %s" % (T0, Tf, s, e, detail))
    if not (Tf >= 0):
        raise Violation("Tf_negative/%s" % what, "(%r, %r) for start=%r end=%r; %s" % (T0, Tf, s, e, detail))
    if no_vars and not (T0 == 0 and Tf == 0):
        raise Violation("no_variables_not_zero/%s" % what, "(%r, %r) for start=%r end=%r; %s" % (T0, Tf, s, e, detail))


def run_atr(spec, rec):
    import qubovert as qv
    with warnings.catch_warnings():
        warnings.simplefilter("ignore")
        _atr(spec, rec, qv)


def _atr(spec, rec, qv):
    kind = spec["kind"]
    spin, terms, can, nontrivial, syn_const, func_const = classify(spec)
    classes = [kind]
    if func_const and not syn_const and not (kind == "dict_spin"):
        # fully cancelled ("stale"): judged in the atr_stale sub-check only
        rec.add("deferred_to_atr_stale")
        rec.case(spec, False, classes + ["deferred_stale"])
        return
    obj = build_obj(qv, spec)
    atr = qv.sim.anneal_temperature_range
    detail = "kind=%s build=%s spin=%r terms=%r" % (kind, spec.get("build"), spin, terms)
    no_vars = syn_const
    if no_vars:
        classes.append("no_variables")
    if not _is_dict(kind):
        entered = set()
        for k, v in terms:
            entered |= squash(k, spin)
        live = set()
        for k in can:
            live |= k
        if entered - live:
            classes.append("partially_stale")
    for j, (s, e) in enumerate(spec["probs"]):
        strict = (len(terms) + j) % 3 == 0
        if strict:
            # a process in which warnings are errors and numpy traps floating point exceptions (np.seterr(all="raise")):
            # a valid call stays a valid call whatever the caller's global settings are
            import numpy as np
            classes.append("strict_environment")
            with warnings.catch_warnings():
                warnings.simplefilter("error")
                with np.errstate(all="raise"):
                    res = lib(atr, obj, s, e, spin, what="anneal_temperature_range(strict environment)")
        else:
            res = lib(atr, obj, s, e, spin, what="anneal_temperature_range")
        _check_range(res, s, e, no_vars, "atr", detail)
        classes.append("end_zero" if e == 0 else ("equal_probs" if s == e else "end_lt_start"))
        if s == 0:
            classes.append("start_zero")
    if not spin:
        # documented defaults: start 0.5, end 0.01, spin False
        res = lib(atr, obj, what="anneal_temperature_range")
        _check_range(res, 0.5, 0.01, no_vars, "atr_defaults", detail)
        classes.append("defaults")
    rec.case(spec, nontrivial, sorted(set(classes)))


STALE_MODES = ["item", "isub_copy", "imul_zero", "terms"]


_STALE_KINDS = gen.ALL_KINDS + gen.SPIN_KINDS + ["dict_bool"]
_STALE_POOLS = {k: _pool(k, 1, 6) for k in _STALE_KINDS}


@st.composite
def stale_strategy(draw):
    kind = draw(st.sampled_from(_STALE_KINDS))
    labels = draw(_STALE_POOLS[kind])
    return {
        "kind": kind,
        "labels": labels,
        "terms": draw(_terms(kind, tuple(labels), "stale"))[:5],
        "offset": draw(st.one_of(st.none(), gen.DYADIC_COEFS)),
        "mode": draw(st.sampled_from(STALE_MODES)),
        "probs": draw(_PROB_PAIRS),
    }


def run_atr_stale(spec, rec):
    import qubovert as qv
    with warnings.catch_warnings():
        warnings.simplefilter("ignore")
        _atr_stale(spec, rec, qv)


def _atr_stale(spec, rec, qv):
    kind = spec["kind"]
    spin = gen.is_spin(kind)
    terms = [(tuple(k), v) for k, v in spec["terms"]]
    offset = spec.get("offset")
    mode = spec.get("mode", "item")
    # keep only terms that really bring a variable into the model
    terms = [(k, v) for k, v in terms if squash(k, spin) and v != 0]
    if not canon_terms(terms, spin):
        rec.add("stale_skipped_no_variable_term")
        rec.case(spec, False, [kind, "skipped"])
        return
    atr = qv.sim.anneal_temperature_range

    if _is_dict(kind):
        # boolean raw dict whose terms cancel inside the boolean -> spin conversion
        obj = {}
        for k, v in canon_terms(terms, spin).items():
            k = tuple(sorted(k, key=lambda x: (str(type(x)), x)))
            k2 = k[::-1] if len(k) > 1 else k + k
            obj[k] = v
            obj[k2] = -v
        if offset is not None:
            obj[()] = offset
        mode = "dict_cancel"
        how = "%r" % (obj,)
    else:
        cls = gen.cls_of(qv, kind)
        if mode == "terms":
            M = cls()
            seq = list(terms) + [(k[1:] + k[:1], -v) for k, v in terms]
            if offset is not None:
                seq.append(((), offset))

            def f():
                for k, v in seq:
                    M[k] += v
            lib(f, what="build")
            how = "%s(); M[k] += v for k, v in %r" % (kind, seq)
        else:
            M = lib(gen.build, qv, kind, terms, what="build")
            if offset is not None:
                def f0():
                    M[()] += offset
                lib(f0, what="build")
            if mode == "item":
                def f():
                    for k in [k for k in tuple(dict.keys(M)) if k]:
                        M[k] -= M[k]
            elif mode == "isub_copy":
                def f():
                    C = M.copy()
                    C[()] = 0
                    M.__isub__(C)
            else:
                def f():
                    c = M[()]
                    M.__imul__(0)
                    M[()] += c
            lib(f, what="cancel")
            how = "%s built from %r (+offset %r), then cancelled by %s" % (kind, terms, offset, mode)
        left = {k: v for k, v in dict.items(M) if k}
        if left:
            raise Violation("harness_stale_not_cancelled", "terms left: %r; %s" % (left, how))
        obj = M

    classes = [kind, "mode_" + mode, "with_offset" if offset is not None else "no_offset"]
    for s, e in spec["probs"]:
        try:
            res = lib(atr, obj, s, e, spin, what="anneal_temperature_range", expect=(ValueError,))
        except ValueError as ex:
            raise Violation("atr_stale_model/ValueError",
                            "anneal_temperature_range(model, %r, %r, spin=%r) raised ValueError(%s) for a model whose variable "
                            "terms all cancelled (a model without variables, (0, 0) expected); model: %s" % (s, e, spin, ex, how))
        try:
            _check_range(res, s, e, True, "stale", how)
        except Violation as v:
            raise Violation("atr_stale_model/" + v.kind, v.detail)
    rec.case(spec, True, classes)


# ---------------------------------------------------------------------------

@st.composite
def _extrema_spec(draw):
    d = draw(model_strategy())
    d["bound"] = draw(gen.DYADIC_COEFS)
    return d


@st.composite
def _atr_spec(draw):
    d = draw(model_strategy())
    d["probs"] = draw(_PROB_PAIRS)
    return d


# ---------------------------------------------------------------------------
# exact number types: rationals and integers beyond 2**53 ("real coefficients" that binary floating point cannot hold)

_EXACT_COEF = st.one_of(
    st.tuples(st.just("F"), st.integers(-9, 9).filter(lambda p: p != 0), st.sampled_from([3, 7, 10, 9, 6])).map(list),
    st.tuples(st.just("I"), st.sampled_from([53, 53, 54, 60, 64, 80]), st.sampled_from([1, -1, 3, -3, 5]),
              st.sampled_from([1, -1])).map(list),
    st.tuples(st.just("i"), st.integers(-4, 4).filter(lambda p: p != 0)).map(list),
)


def _decode_exact(c):
    from fractions import Fraction
    if c[0] == "F":
        return Fraction(c[1], c[2])
    if c[0] == "I":
        return c[3] * (2 ** c[1] + c[2])
    return c[1]


@st.composite
def _exact_spec(draw):
    kind = draw(_KIND)
    labels = draw(_pool(kind, 1, 5))
    quad, spin = gen.is_quad(kind), gen.is_spin(kind)
    keys = draw(gen.poly_strategy(labels, 6, 2 if (quad or draw(st.booleans())) else 4, st.just(1), repeats=False,
                                  offset=True, min_terms=1, quad=quad, spin=spin))
    return {"kind": kind, "labels": labels, "terms": [[k, draw(_EXACT_COEF)] for k, _ in keys],
            "build": draw(_BUILD)}


def run_exact(spec, rec):
    import itertools
    import numbers
    import qubovert as qv
    kind, labels = spec["kind"], list(spec["labels"])
    spin = gen.is_spin(kind)
    terms = [(tuple(k), _decode_exact(c)) for k, c in spec["terms"]]
    can = canon_terms(terms, spin)
    obj = build_obj(qv, {"kind": kind, "terms": terms, "build": spec.get("build", "iadd")})
    used = sorted({l for k in can for l in k}, key=labels.index)
    vals = []
    for bits in itertools.product((1, -1) if spin else (0, 1), repeat=len(used)):
        x = dict(zip(used, bits))
        tot = 0
        for k, v in can.items():
            t = v
            for l in k:
                t = t * x[l]
            tot = tot + t
        vals.append(tot)
    tmin, tmax = min(vals), max(vals)
    detail = "kind=%s build=%s terms=%r" % (kind, spec.get("build"), terms)
    classes = [kind] + sorted({"coef:" + c[0] for _, c in spec["terms"]})
    with warnings.catch_warnings():
        warnings.simplefilter("ignore")
        for name in _fn_names(kind, terms):
            res = lib(getattr(qv.utils, name), obj, what=name)
            short = name.replace("approximate_", "").replace("_extrema", "")
            if not isinstance(res, tuple) or len(res) != 2 or not all(
                    isinstance(x, numbers.Real) and not isinstance(x, bool) for x in res):
                raise Violation("not_a_pair/%s" % short, "returned %r; %s" % (res, detail))
            lo, hi = res
            if lo > tmin:
                raise Violation("lower_bound_above_min/%s/exact" % short,
                                "%s -> (%r, %r) but true min %r (exact arithmetic); %s" % (name, lo, hi, tmin, detail))
            if hi < tmax:
                raise Violation("upper_bound_below_max/%s/exact" % short,
                                "%s -> (%r, %r) but true max %r (exact arithmetic); %s" % (name, lo, hi, tmax, detail))
            # constant clause: syntactic for raw dicts (see ASSUMPTIONS), canonical polynomial for model objects
            const_model = all(len(k) == 0 for k, _ in terms) if _is_dict(kind) else not any(can)
            if const_model and not (lo == hi == can.get(frozenset(), 0)):
                raise Violation("constant_not_exact/%s/exact" % short, "%s -> (%r, %r); %s" % (name, lo, hi, detail))
    signs = {v > 0 for k, v in can.items() if k}
    rec.case(spec, len(signs) == 2 and len(used) >= 2, classes)


def subchecks(tier):
    return [
        Sub("extrema", _extrema_spec(), run_extrema, quick=12000, thorough=300000),
        Sub("exact", _exact_spec(), run_exact, quick=3000, thorough=60000),
        Sub("atr", _atr_spec(), run_atr, quick=10000, thorough=200000),
        # last, so that a finding here does not cut the other searches short
        Sub("atr_stale", stale_strategy(), run_atr_stale, quick=1200, thorough=30000),
    ]
