"""Source-model strategy shared by the truth-table checks C04 and C18.

``source(kinds, ...)`` yields plain-data specs

    {"kind": ..., "labels": [...], "ctor": "iadd" | "dict", "terms": [[key, coef], ...]}

The small decisions (kind, label pool, number of labels, coefficient class,
repeated labels or not, anchored or not, constructor) are drawn first in one
tuple; the term list comes from a strategy that is built once per combination
and cached (building strategies inside ``flatmap`` on every draw dominated the
run time otherwise).  "anchored" inserts one term of degree >= 2 on distinct
labels at a generated position so that most cases are non-trivial.
"""
from hypothesis import strategies as st

from . import gen

COEF_CLASSES = [gen.MIXED_COEFS, gen.MIXED_COEFS, gen.MIXED_COEFS, gen.INT_COEFS, gen.SMALL_INT_COEFS,
                gen.DYADIC_COEFS, gen.FLOAT_COEFS, gen.TINY_COEFS, gen.HUGE_COEFS]

_CACHE = {}


def _terms(kind, labels, ci, repeats, anchored, quad, offset, max_raw_len):
    coefs = COEF_CLASSES[ci]
    q = quad or gen.is_quad(kind)
    p = gen.poly_strategy(labels, 6, 6, coefs, repeats, offset, 0, quad=q, spin=gen.is_spin(kind))
    if anchored and len(labels) >= 2:
        hi = 2 if q else len(labels)
        anchor = st.integers(2, hi).flatmap(lambda d: st.tuples(
            gen.key_strategy(labels, hi, False, min_deg=d), coefs).map(list))
        p = st.tuples(st.integers(0, 6), anchor, p).map(lambda t: t[2][:t[0]] + [t[1]] + t[2][t[0]:])
    if max_raw_len is not None:
        p = p.map(lambda ts: [t for t in ts if len(t[0]) <= max_raw_len])
    return p


def source(kinds, quad=False, offset=True, int_labels=False, max_raw_len=None, n_min=1, order_pools=False):
    kinds = list(kinds)
    if order_pools:
        kinds = [k for k in kinds if not gen.is_matrix(k)] or kinds
    head = st.tuples(st.sampled_from(kinds), st.integers(0, 63), st.integers(n_min, 6),
                     st.integers(0, len(COEF_CLASSES) - 1), st.booleans(),
                     st.sampled_from([True, True, True, False]), st.sampled_from(["iadd", "dict"]), gen.CTYPE)

    def body(h):
        kind, pi, n, ci, repeats, anchored, ctor, ctype = h
        pools = gen.INT_POOLS if (gen.is_matrix(kind) or int_labels) else (
            gen.ORDER_POOLS if order_pools else gen.LABEL_POOLS + gen.INT_POOLS[:2])
        pi %= len(pools)
        labels = list(pools[pi][:n])
        key = (kind, pi, n, ci, repeats, anchored, quad, offset, max_raw_len, int_labels, order_pools)
        terms = _CACHE.get(key)
        if terms is None:
            terms = _CACHE[key] = _terms(kind, labels, ci, repeats, anchored, quad, offset, max_raw_len)
        # "ctype": the number type the coefficients are handed to the library in (gen.wrap_number); same values
        return terms.map(lambda ts: {"kind": kind, "labels": list(labels), "ctor": ctor, "terms": ts, "ctype": ctype})
    return head.flatmap(body)
