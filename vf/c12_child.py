"""Child interpreter for C12's cross-process reproducibility sub-check.

Reads a JSON list of annealer call specs on stdin, executes each call once with the overlay build given by
VERIF_OVERLAY and prints the canonical results (states sorted by repr of the label, values, spin flags) as JSON.
Started with a PYTHONHASHSEED different from the parent's.
"""
import json
import sys
import warnings


def canonical(res):
    return [[sorted(([repr(k), int(v)] for k, v in r.state.items())), float(r.value), bool(r.spin)] for r in res]


def main():
    import os
    from . import build, common
    from . import anneal_gen as ag
    build.activate(os.environ["VERIF_OVERLAY"])
    import qubovert as qv
    specs = common.jloads(sys.stdin.read())
    out = []
    with warnings.catch_warnings():
        warnings.simplefilter("ignore")
        for spec in specs:
            try:
                f, model, kwargs, expected, ref_terms, spin, init = ag.prepare(qv, spec)
                out.append(canonical(f(model, **kwargs)))
            except Exception as e:  # noqa
                out.append({"exception": "%s: %s" % (type(e).__name__, e)})
    sys.stdout.write(json.dumps(out))


if __name__ == "__main__":
    main()
