"""Coverage-guided layer (atheris / libFuzzer) over the same strategies and oracles.

The Hypothesis strategies of a sub-check are driven through
``test.hypothesis.fuzz_one_input``: libFuzzer mutates a byte string, Hypothesis
decodes it into a spec (structure-aware decoding, no input is ever rejected by
a parser), ``run_case`` applies the semantic oracle, and the python byte code of
the *library under test* (``qubovert`` only, not the harness) is instrumented,
so an input that reaches a new branch of the library is kept in the corpus and
mutated further.  This complements the blind random generation of the sharded
Hypothesis run: a fast path, a special case or a rarely taken branch that a
change introduces is a new coverage feature, and the search concentrates on it.

Worker  : python -m vf.cgf worker <ID> <sub> <runs> <seed> <outdir>      (one libFuzzer process)
Parent  : campaign(mod, tier, seed) -> (fail | None, stats)   called by common.run_property (thorough tier)
          python -m vf.cgf <ID> [--runs N] [--workers W]                   stand-alone campaign (development)

A failing case is written as a replay spec exactly like a Hypothesis failure
(unshrunk; ``./check <ID> --replay`` re-runs it without atheris or Hypothesis).
libFuzzer's own seed pins a campaign only approximately; the saved spec is the
reproducible unit.
"""
import importlib
import json
import os
import re
import subprocess
import sys
import time

ROOT = os.path.dirname(os.path.dirname(os.path.abspath(__file__)))
DEPS = os.path.join(ROOT, ".deps")
WHEELS = "/opt/veriftools/wheels"


def ensure_atheris():
    """atheris lives in /verif/.deps (git-ignored); installed offline from the wheelhouse on first use."""
    if DEPS not in sys.path:
        sys.path.insert(0, DEPS)
    try:
        import atheris  # noqa
        return True
    except Exception:
        pass
    try:
        subprocess.run([sys.executable, "-m", "pip", "install", "-q", "--no-index", "--find-links", WHEELS,
                        "--target", DEPS, "atheris"], capture_output=True, timeout=300)
        importlib.invalidate_caches()
        import atheris  # noqa
        return True
    except Exception:
        return False


# --------------------------------------------------------------------------
# worker


def _patch_bytestring_provider():
    """Hypothesis 6.168's BytestringProvider.draw_integer draws ``bits = (max - min).bit_length()`` bits and
    retries until ``min <= value <= max`` *without adding min*: for a range such as integers(5, 6) (one bit, values
    0..1) no value is ever accepted and every buffer ends as an overrun, so strategies using fixed_dictionaries
    (Fisher-Yates draws integers(i, n-1)), permutations or integers with a positive lower bound never produce a
    case.  The replacement offsets the drawn value by min (same byte consumption otherwise).  This patches the
    test tool inside the fuzz worker only."""
    from hypothesis.internal.conjecture import providers as pr

    def draw_integer(self, min_value=None, max_value=None, *, weights=None, shrink_towards=0):
        if min_value is None and max_value is None:
            min_value, max_value = -(2 ** 127), 2 ** 127 - 1
        elif min_value is None:
            min_value = max_value - 2 ** 64
        elif max_value is None:
            max_value = min_value + 2 ** 64
        if min_value == max_value:
            return min_value
        span = max_value - min_value
        bits = span.bit_length()
        value = self._draw_bits(bits)
        while value > span:
            value = self._draw_bits(bits)
        return min_value + value

    pr.BytestringProvider.draw_integer = draw_integer


def worker(prop, subname, runs, seed, outdir):
    from . import build, common
    if not ensure_atheris():
        sys.stderr.write("atheris unavailable\n")
        os._exit(3)
    import atheris
    overlay = os.environ["VERIF_OVERLAY"]
    with atheris.instrument_imports(include=["qubovert"], enable_loader_override=False):
        build.activate(overlay)
        import qubovert  # noqa
        import qubovert.sim  # noqa
        import qubovert.sat  # noqa
        import qubovert.problems  # noqa
        import qubovert.utils  # noqa
    mod = importlib.import_module("vf.%s" % prop.lower())
    if hasattr(mod, "prepare"):
        mod.prepare("thorough")
    subs = {s.name: s for s in mod.subchecks("thorough")}
    sub = subs[subname]
    known = common.known_signatures(mod.ID)
    rec = common.Recorder()
    rec.sub = sub.name
    state = {"n": 0, "t0": time.time()}
    recfile = os.path.join(outdir, "rec.json")

    def dump():
        d = rec.dump()
        d["cases"] = state["n"]
        d["wall"] = time.time() - state["t0"]
        tmp = recfile + ".tmp"
        with open(tmp, "w") as f:
            json.dump(d, f)
        os.replace(tmp, recfile)

    def fail(kind, obj):
        dump()
        with open(os.path.join(outdir, kind + ".json"), "w") as f:
            f.write(common.jdumps(obj))
        sys.stderr.flush()
        os._exit(77 if kind == "fail" else 78)

    import hypothesis
    from hypothesis import given, settings, HealthCheck, Verbosity
    _patch_bytestring_provider()

    def body(spec):
        state["n"] += 1
        try:
            sub.run_case(spec, rec)
        except common.Violation as v:
            if v.kind in known:
                rec.add("excluded_known/" + v.kind)
                return
            fail("fail", {"sub": sub.name, "spec": spec, "kind": v.kind, "detail": v.detail})
        except BaseException as e:  # noqa  harness fault: never a violation
            import traceback
            fail("error", {"sub": sub.name, "spec": spec,
                           "error": "".join(traceback.format_exception(type(e), e, e.__traceback__))[-4000:]})
        if state["n"] % 500 == 0:
            dump()

    test = given(sub.strategy)(body)
    test = settings(database=None, deadline=None, suppress_health_check=list(HealthCheck),
                    verbosity=Verbosity.quiet)(test)
    fuzz_one = test.hypothesis.fuzz_one_input
    calls = {"n": 0}

    def one(data):
        calls["n"] += 1
        try:
            fuzz_one(data)
        except hypothesis.errors.HypothesisException:
            pass          # e.g. an internal "unsatisfiable"/flaky signal on a degenerate buffer: not a case
        if calls["n"] >= runs:
            dump()

    corpus = os.path.join(outdir, "corpus")
    os.makedirs(corpus, exist_ok=True)
    # starting corpus: the specs need hundreds of choices, so an empty corpus (libFuzzer starts with a few bytes)
    # only produces buffers Hypothesis runs out of.  Seed it with pseudo-random buffers (a pure function of the seed).
    import random
    prng = random.Random(seed)
    for i in range(24):
        with open(os.path.join(corpus, "seed%02d" % i), "wb") as f:
            f.write(prng.randbytes(prng.choice([512, 1024, 2048, 4096])))
    argv = [sys.argv[0], corpus, "-runs=%d" % runs, "-seed=%d" % (seed or 1), "-max_len=8192",
            "-len_control=0", "-print_final_stats=1", "-verbosity=1", "-timeout=600", "-rss_limit_mb=6000"]
    atheris.Setup(argv, one)
    dump()
    atheris.Fuzz()


# --------------------------------------------------------------------------
# parent


_COV = re.compile(r"cov: (\d+) ft: (\d+) corp: (\d+)")


def campaign(mod, seed, overlay, budgets, workers=16, timeout=3 * 3600):
    """Run one libFuzzer process per (sub, worker slot).  budgets: {subname: total runs}.
    Returns (fail dict or None, error text or None, stats dict)."""
    import shutil
    from . import common
    if not ensure_atheris():
        return None, None, {"available": False, "reason": "atheris could not be imported or installed offline"}
    prop = mod.ID
    base = os.path.join(ROOT, ".run", "cgf-%s-%d" % (prop, os.getpid()))
    shutil.rmtree(base, ignore_errors=True)
    os.makedirs(base)
    names = [n for n in budgets if budgets[n] > 0]
    if not names:
        return None, None, {"available": True, "subs": {}}
    per = max(1, workers // len(names))
    jobs = []
    env = dict(os.environ, VERIF_OVERLAY=overlay, PYTHONPATH=ROOT + os.pathsep + os.environ.get("PYTHONPATH", ""))
    for name in names:
        for w in range(per):
            out = os.path.join(base, "%s-%d" % (name, w))
            os.makedirs(out)
            runs = max(1, budgets[name] // per)
            cmd = [sys.executable, "-W", "ignore", "-m", "vf.cgf", "worker", prop, name, str(runs),
                   str(seed * 1000 + w + 1), out]
            log = open(os.path.join(out, "log"), "w")
            p = subprocess.Popen(cmd, cwd=ROOT, env=env, stdout=log, stderr=subprocess.STDOUT)
            jobs.append({"sub": name, "w": w, "out": out, "p": p, "log": log, "runs": runs})
    t0 = time.time()
    fail = err = None
    try:
        pending = list(jobs)
        while pending:
            time.sleep(1.0)
            for j in list(pending):
                rc = j["p"].poll()
                if rc is None:
                    continue
                pending.remove(j)
                j["rc"] = rc
                j["log"].close()
                if rc == 77 and fail is None:
                    fail = common.jloads(open(os.path.join(j["out"], "fail.json")).read())
                elif rc == 78 and err is None:
                    err = common.jloads(open(os.path.join(j["out"], "error.json")).read())["error"]
                elif rc not in (0, 77, 78) and err is None:
                    tail = open(os.path.join(j["out"], "log")).read()[-3000:]
                    err = "cgf worker %s-%d exited %r:\n%s" % (j["sub"], j["w"], rc, tail)
            if fail or err:
                break
            if time.time() - t0 > timeout:
                break            # budget hit: inconclusive for the remaining workers, never a violation
    finally:
        for j in jobs:
            if j["p"].poll() is None:
                j["p"].kill()
                j["p"].wait()
            try:
                j["log"].close()
            except Exception:
                pass
    stats = {"available": True, "engine": "atheris %s / libFuzzer, python byte-code coverage of qubovert only"
             % getattr(sys.modules.get("atheris"), "__version__", ""), "subs": {}, "wall_s": round(time.time() - t0, 1)}
    merged = []
    for j in jobs:
        s = stats["subs"].setdefault(j["sub"], {"workers": 0, "libfuzzer_runs": 0, "cases": 0, "cov_edges_max": 0,
                                                "features_max": 0, "corpus_units": 0})
        s["workers"] += 1
        try:
            txt = open(os.path.join(j["out"], "log")).read()
            m = _COV.findall(txt)
            if m:
                s["cov_edges_max"] = max(s["cov_edges_max"], int(m[-1][0]))
                s["features_max"] = max(s["features_max"], int(m[-1][1]))
                s["corpus_units"] += int(m[-1][2])
            m2 = re.findall(r"stat::number_of_executed_units: (\d+)", txt)
            if m2:
                s["libfuzzer_runs"] += int(m2[-1])
        except Exception:
            pass
        try:
            d = json.load(open(os.path.join(j["out"], "rec.json")))
            s["cases"] += d.get("cases", 0)
            merged.append({"rec": d})
        except Exception:
            pass
    shutil.rmtree(base, ignore_errors=True)
    return fail, err, {"stats": stats, "recs": merged}


def main(argv):
    if argv and argv[0] == "worker":
        prop, subname, runs, seed, outdir = argv[1], argv[2], int(argv[3]), int(argv[4]), argv[5]
        worker(prop, subname, runs, seed, outdir)
        return 0
    import argparse
    ap = argparse.ArgumentParser()
    ap.add_argument("prop")
    ap.add_argument("--runs", type=int, default=20000)
    ap.add_argument("--workers", type=int, default=16)
    ap.add_argument("--sub", default=None)
    a = ap.parse_args(argv)
    from . import build, common
    prop = a.prop.upper()
    path = build.build("plain", tag="%s-cgf-%d" % (prop, os.getpid()))
    import atexit
    import shutil
    atexit.register(shutil.rmtree, path, True)
    build.activate(path)
    mod = importlib.import_module("vf.%s" % prop.lower())
    subs = [s for s in mod.subchecks("thorough") if s.strategy is not None and (a.sub in (None, s.name))]
    budgets = {s.name: a.runs for s in subs}
    seed = int(os.environ.get("VERIF_SEED", "1") or "1")
    fail, err, info = campaign(mod, seed, path, budgets, a.workers)
    print(json.dumps(info["stats"], indent=1))
    if err:
        sys.stderr.write("HARNESS ERROR: %s\n" % err)
        return 2
    if fail:
        p = common.write_replay(prop, fail)
        print("VIOLATION property=%s replay=%s\n  sub=%s kind=%s\n  %s" % (prop, p, fail["sub"], fail["kind"], fail["detail"][:1500]))
        return 1
    print("OK cgf property=%s" % prop)
    return 0


if __name__ == "__main__":
    sys.exit(main(sys.argv[1:]))
