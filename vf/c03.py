"""C03 — PCSO comparison constraints become exact non-negative penalties on spins.

Generator, oracle and classification are those of C02 (``vf/c02.py``) bound to
spin models: H is a spin polynomial, assignments are in {+1, -1}, ancillas are
spins, the model is a PCSO, H is passed as dict / PUSO / PCSO / QUSO, and

* 1..4 constraints are added to one PCSO (random base objective already in it),
  optionally continuing on a ``copy()`` taken mid-way: ancilla names must never
  repeat along that lineage, and every ``__a<k>`` present has k < num_ancillas;
* F := after - before is tabulated on all spin assignments of the labels and
  the new ancilla spins (boolean row index b <-> spin 1 - 2b): F >= 0,
  min_a F == 0 exactly where H(z) R 0, >= lam elsewhere (unless the library
  warned "cannot be satisfied");
* is_solution_valid(z + arbitrary ancilla spins) agrees with the recorded
  relations evaluated by the reference on every z.

H has integer coefficients (shapes: generic, sum c_i (1 - s_i m_i) - k whose
boolean form has a non-negative part with negative offset, the integer spin
form of 4v (x_a - x_b x_c), min = 0, max = 0, indefinite, constants, odd-valued)
or, for about a fifth of the constraints, is the reference image under
x = (1 - z)/2 of one of C02's boolean shapes (dyadic coefficients, still
integer valued) so that the special-case branches of the helper PCBO are also
reached through the two basis changes.
"""
from . import c02
from .common import Sub

ID = "C03"
RULE = ("C02's generator and oracle on spins: integer-valued spin polynomial H over <= 4 labels, degree <= 3 (integer "
        "coefficients -3..3 in branch-aimed shapes; about 1/5 are C02's boolean shapes mapped by the reference x=(1-z)/2, "
        "dyadic coefficients), 6 relations, log_trick both ways, lam in {1/2,1,2,13/4,10}, bounds in {None,(lo,None),(None,hi),"
        "exact,loose integer,loose half-integer} valid for H by the reference table, H passed as dict/PUSO/PCSO/QUSO, dyadic "
        "base objective already in the PCSO, 1..4 constraints per model, optional switch to a copy() mid-way. Non-trivial "
        "case = at least one constraint neither warned unsatisfiable nor always true with both satisfying and violating "
        "assignments (and small enough to tabulate). Distinct = spec hash.")
ASSUMPTIONS = list(c02.ASSUMPTIONS) + [
    "H is integer valued on every spin assignment; the 'bool:*' shapes have dyadic (k/8) coefficients but integer values",
    "bounds given for H are forwarded by the library to the boolean form unchanged; they are valid for both since the "
    "basis change preserves values",
]


def run_case(spec, rec):
    c02.run(spec, rec, True)


def subchecks(tier):
    return [Sub("constraints", c02.case_strategy(True), run_case, quick=10000, thorough=120000)]
