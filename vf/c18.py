"""C18 — subvalue / subgraph / normalize preserve the represented function.

subvalue : type kept; for every assignment y of the remaining variables
           ref(result, y) == ref(G, y + values).
subgraph : type kept; labels of the result are in ``nodes``; for every
           assignment y of ``nodes``  ref(result, y) == ref(G - G[()], y + outside),
           outside variable l fixed to ``connections.get(l, 0)``.
normalize: type kept; result == c * G entry by entry with one common factor c,
           max |coefficient| == |value|; function and method agree; the function
           leaves its argument unchanged; the method on an empty model is a no-op.

The judge is ``ref.ref_value`` (plain multiplication over the key with
repetitions) — it never calls qubovert.
"""
import numpy as np
from hypothesis import strategies as st

from . import gen, polysrc, ref
from .common import Sub, Violation, lib

ID = "C18"
RULE = ("One generated G per case: raw dict (keys with unsorted / repeated labels; evaluated on booleans or on spins) or one of the "
        "ten model types, 2..6 labels, <= 7 terms, degree <= 6, integer / dyadic coefficients (exact comparison) or floats "
        "(relative 1e-9). subvalue: generated partial map label -> value (values of the model's own domain, arbitrary dyadic "
        "numbers, sympy symbols compared after substituting numbers), function and method. subgraph: generated node set, "
        "connections None / partial / also naming kept nodes, values of the domain or arbitrary numbers. A share of the subvalue / "
        "subgraph cases (class cancelling_term_added) gets one extra term constructed to cancel exactly after the substitution. normalize: generated non-zero "
        "dyadic target (or the default), function and method on equal models. Non-trivial: a substituted (resp. outside) "
        "variable shares a term of degree >= 2 with a kept variable; for normalize >= 2 coefficients of different magnitude. "
        "Distinct = distinct spec hash.")
ASSUMPTIONS = [
    "ground truth for G is its stored dict (raw dict: the dict itself) evaluated by plain multiplication",
    "a key with a repeated label whose substituted value c is not idempotent in the domain (boolean c*c != c, spin c*c != 1, or a "
    "symbol) has no single meaning: such cases are counted as 'ambiguous_repeated_label' and not judged",
    "subgraph ignores only the literal () entry of G (documented); nodes are restricted to variables of G",
    "normalize function on an empty dict raises (documented pitfall) - counted, not judged; the method on an empty model must be a no-op",
    "symbolic and float cases: tolerance 1e-9 * sum(|coef| * prod |values|); everything else exact",
]

NUMBERS = [-3, -1, -0.5, 0, 0.5, 1, 2, 2.5]
SYMBOLS = ["s0", "s1"]
KINDS = gen.ALL_KINDS + ["dict_bool", "dict_spin", "dict_bool", "dict_spin"]


# ---------------------------------------------------------------------------
# strategies

def _source(n_min=2):
    plain = polysrc.source(KINDS, n_min=n_min)
    # a quarter of the sources over the label pools built to upset key ordering (int / float mixes, strings whose
    # natural and lexicographic orders differ, equal str(), equal hashes); at least three labels
    return st.one_of(plain, plain, polysrc.source(KINDS, n_min=max(n_min, 3), order_pools=True))


def _slot(cls):
    """Abstract substituted value, drawn *before* the source (Hypothesis biases
    whatever is drawn after a long prefix towards its simplest value):
    ["bin", b] resolves to the b-th value of the source's own domain."""
    binary = st.tuples(st.just("bin"), st.integers(0, 1)).map(list)
    number = st.sampled_from(NUMBERS)
    symbol = st.tuples(st.just("sym"), st.sampled_from(SYMBOLS), st.sampled_from([-2, 0.5, 3, 0, 1, -1])).map(list)
    if cls == "binary":
        return binary
    if cls == "number":
        return st.one_of(number, number, binary)
    return st.one_of(symbol, symbol, binary, number)


def _slots(cls, p_none):
    """Six optional slots, one per label position."""
    one = st.one_of([st.none()] * p_none + [_slot(cls)] * (4 - p_none))
    return st.tuples(one, one, one, one, one, one).map(list)


def _resolve(slot, kind):
    if isinstance(slot, list) and slot[0] == "bin":
        return ([1, -1] if gen.is_spin(kind) else [0, 1])[slot[1]]
    return slot


def _pairs(slots, src):
    return [[l, _resolve(sl, src["kind"])] for l, sl in zip(src["labels"], slots) if sl is not None]


def _numeric(v):
    return v[2] if isinstance(v, (list, tuple)) else v


def _add_cancel(spec):
    """Append one term that cancels a substituted term exactly (plain data in, plain data out)."""
    idx = spec.pop("cancel")
    terms = [list(t) for t in spec["src"]["terms"]]
    if idx is None or not terms:
        return spec
    if spec["fn"] == "subvalue":
        sub = {l: _numeric(v) for l, v in spec["values"]}

        def fixed(l):
            return l in sub

        def val(l):
            return sub[l]
    else:
        nodes = list(spec["nodes"])
        conn = dict((l, v) for l, v in (spec["connections"] or []))

        def fixed(l):
            return l not in nodes

        def val(l):
            return conn.get(l, 0)
    # prefer a term in which a substituted label sits next to at least two kept ones (the kept part is then a key of its
    # own, and the appended term below has to merge with it), if there is one
    cand = [t for t in terms if any(fixed(l) for l in t[0]) and len({l for l in t[0] if not fixed(l)}) >= 2] or terms
    key, coef = cand[idx % len(cand)]
    kept = tuple(l for l in key if not fixed(l))
    prod = coef
    for l in key:
        if fixed(l):
            prod = prod * val(l)
    if len(kept) == len(key) or prod == 0:
        return spec
    terms.insert((idx // 7) % (len(terms) + 1), [kept, -prod])
    spec["src"] = dict(spec["src"], terms=terms)
    spec["cancel_added"] = True
    return spec


def _subvalue_cases():
    src = _source()

    def for_cls(cls):
        ctl = st.fixed_dictionaries({
            "via": st.sampled_from(["function", "method"]),
            "slots": st.one_of(_slots(cls, 1), _slots(cls, 2), _slots(cls, 3)),
            "cancel": st.one_of(st.none(), st.integers(0, 48), st.integers(0, 48)),
        })
        return st.tuples(ctl, src).map(lambda t: {
            "fn": "subvalue", "src": t[1], "via": t[0]["via"],
            "values": _pairs(t[0]["slots"], t[1]), "cancel": t[0]["cancel"]})
    by_cls = {c: for_cls(c) for c in ("binary", "number", "symbolic")}
    return st.one_of([by_cls[c] for c in ("binary", "binary", "binary", "number", "number", "symbolic", "symbolic")]).map(
        _add_cancel)


def _subgraph_cases():
    src = _source()

    def for_cls(cls):
        ctl = st.fixed_dictionaries({
            "via": st.sampled_from(["function", "method"]),
            "mask": st.lists(st.booleans(), min_size=6, max_size=6),
            "slots": st.one_of(st.none(), _slots(cls, 0), _slots(cls, 1), _slots(cls, 2)),
            "omit_connections": st.booleans(),
            "cancel": st.one_of(st.none(), st.integers(0, 48)),
        })
        return st.tuples(ctl, src).map(lambda t: {
            "fn": "subgraph", "src": t[1], "via": t[0]["via"],
            "nodes": [l for l, m in zip(t[1]["labels"], t[0]["mask"]) if m],
            "connections": None if t[0]["slots"] is None else _pairs(t[0]["slots"], t[1]),
            "omit_connections": t[0]["omit_connections"], "cancel": t[0]["cancel"]})
    by_cls = {c: for_cls(c) for c in ("binary", "number")}
    return st.one_of([by_cls[c] for c in ("binary", "binary", "binary", "number")]).map(_add_cancel)


def _normalize_cases():
    value = st.one_of(gen.DYADIC_COEFS, gen.INT_COEFS, st.sampled_from([1, -1, 0.5, 10, 100, 1 / 1024]))
    return st.tuples(value, st.sampled_from([False, False, False, True]), _source(n_min=1)).map(
        lambda t: {"fn": "normalize", "src": t[2], "value": t[0], "default": t[1]})


# ---------------------------------------------------------------------------
# helpers

def _is_dyadic(v):
    if isinstance(v, bool):
        return False
    if isinstance(v, int):
        return abs(v) <= 4096
    return isinstance(v, float) and abs(v) <= 4096 and float(v * 512).is_integer()


def _label_class(labels):
    ts = {type(l).__name__ for l in labels}
    if len(ts) == 1:
        return "labels=" + next(iter(ts))
    return "labels=mixed"


def _build(qv, src):
    kind = src["kind"]
    terms = [(tuple(k), gen.wrap_number(v, src.get("ctype"))) for k, v in src["terms"]]
    if kind.startswith("dict"):
        return gen.terms_dict(terms)
    builder = gen.build if src.get("ctor", "iadd") == "iadd" else gen.build_from_dict
    return lib(builder, qv, kind, terms, what="build")


def _unchanged(G, snap, what):
    now = gen.snapshot(G)
    if now != snap:
        raise Violation("argument_changed/%s" % what, "before=%r after=%r" % (snap, now))


def _labels_in(terms):
    out = set()
    for k in terms:
        out.update(k)
    return out


def _to_number(c, symmap):
    if hasattr(c, "subs"):
        return float(c.subs(symmap))
    return c


def _idempotent(c, spin):
    return (c * c == 1) if spin else (c * c == c)


def _shares_term(truth, fixed):
    """A fixed variable occurs in a term of degree >= 2 together with a kept variable."""
    for k in truth:
        s = set(k)
        if len(s) >= 2 and any(fixed(l) for l in s) and any(not fixed(l) for l in s):
            return True
    return False


def _compare(truth, res, free, fixed_vals, spin, exact, scale, kind, detail):
    for r, y in ref.all_assignments(free, spin):
        full = dict(fixed_vals)
        full.update(y)
        want = ref.ref_value(truth, full)
        got = ref.ref_value(res, y)
        ok = (want == got) if exact else abs(want - got) <= 1e-9 * scale
        if not ok:
            raise Violation(kind, "at %r (fixed %r): G gives %r, result gives %r; %s" % (y, fixed_vals, want, got, detail))


# ---------------------------------------------------------------------------
# cases

def run_case(spec, rec):
    import qubovert as qv
    fn = spec["fn"]
    if fn == "subvalue":
        return _subvalue(qv, spec, rec)
    if fn == "subgraph":
        return _subgraph(qv, spec, rec)
    if fn == "normalize":
        return _normalize(qv, spec, rec)
    raise AssertionError(fn)


def _common_classes(spec, truth):
    src = spec["src"]
    kind = src["kind"]
    classes = {"src=" + kind, _label_class(src["labels"])}
    if kind.startswith("dict") and any(len(set(k)) != len(k) for k in truth):
        classes.add("dict_repeated_label")
    if spec.get("cancel_added"):
        classes.add("cancelling_term_added")
    exact = all(_is_dyadic(v) for _, v in src["terms"])
    classes.add("coefs=dyadic" if exact else "coefs=float")
    return classes, exact


def _subvalue(qv, spec, rec):
    import sympy
    src = spec["src"]
    kind = src["kind"]
    spin = gen.is_spin(kind)
    labels = list(src["labels"])
    G = _build(qv, src)
    truth = dict(G)
    snap = gen.snapshot(G)
    classes, exact = _common_classes(spec, truth)
    via = spec["via"] if not kind.startswith("dict") else "function"
    classes.add("via=" + via)

    values, numeric, symmap = {}, {}, {}
    for l, v in spec["values"]:
        if isinstance(v, (list, tuple)):
            s = sympy.Symbol(v[1])
            values[l] = s
            symmap[s] = v[2]
            numeric[l] = v[2]
        else:
            values[l] = v
            numeric[l] = v
    # a symbol may be given two numbers in one spec: the last one is used everywhere
    for l, v in values.items():
        if v in symmap:
            numeric[l] = symmap[v]
    symbolic = bool(symmap)
    dom = (1, -1) if spin else (0, 1)
    if symbolic:
        classes.add("values=symbolic")
    elif all(v in dom for v in numeric.values()):
        classes.add("values=binary")
    else:
        classes.add("values=number")
    for k in truth:
        for l in set(k):
            if k.count(l) > 1 and l in values and (hasattr(values[l], "subs") or not _idempotent(numeric[l], spin)):
                rec.add("ambiguous_repeated_label")
                return
    keep = dict(values)
    if via == "function":
        R = lib(qv.utils.subvalue, values, G, what="subvalue")
    else:
        R = lib(G.subvalue, values, what="subvalue(method)")
    detail = "subvalue(%r, %s %r) = %s %r" % (values, type(G).__name__, truth, type(R).__name__, dict(R))
    if type(R) is not type(G):
        raise Violation("result_type/subvalue", detail)
    res = {k: _to_number(c, symmap) for k, c in dict(R).items()}
    free = [l for l in labels if l not in values]
    foreign = [l for l in _labels_in(res) if l not in free]
    if foreign:
        raise Violation("substituted_label_remains/subvalue", "labels %r; %s" % (foreign, detail))
    scale = 1.0
    for k, v in truth.items():
        p = abs(float(v))
        for l in k:
            if l in numeric:
                p *= abs(float(numeric[l]))
        scale += p
    _compare(truth, res, free, numeric, spin, exact and not symbolic, scale, "function_differs/subvalue", detail)
    _unchanged(G, snap, "subvalue")
    if values != keep:
        raise Violation("argument_changed/subvalue_values", detail)
    used = [l for l in values if l in _labels_in(truth)]
    if not used:
        classes.add("no_variable_substituted")
    nontrivial = _shares_term(truth, lambda l: l in values)
    rec.case(spec, nontrivial, sorted(classes | {"subvalue"}))


def _subgraph(qv, spec, rec):
    src = spec["src"]
    kind = src["kind"]
    spin = gen.is_spin(kind)
    labels = list(src["labels"])
    G = _build(qv, src)
    truth = dict(G)
    snap = gen.snapshot(G)
    classes, exact = _common_classes(spec, truth)
    via = spec["via"] if not kind.startswith("dict") else "function"
    classes.add("via=" + via)
    gvars = _labels_in(truth)
    node_list = [l for l in spec["nodes"] if l in gvars]
    nodes = set(node_list)
    conn = None if spec["connections"] is None else {l: v for l, v in spec["connections"]}
    outside = {l: (conn.get(l, 0) if conn else 0) for l in labels if l not in nodes}
    for k in truth:
        for l in set(k):
            if k.count(l) > 1 and l in outside and not _idempotent(outside[l], spin):
                rec.add("ambiguous_repeated_label")
                return
    if conn is None:
        classes.add("connections=None")
    else:
        if any(l in nodes for l in conn):
            classes.add("connection_names_kept_node")
        if any(l not in conn for l in outside if l in gvars):
            classes.add("connections=partial(default 0 used)")
        if any(v not in ((1, -1) if spin else (0, 1)) for v in conn.values()):
            classes.add("connections=number")
    if truth.get((), 0):
        classes.add("G_has_offset")
    keep_nodes, keep_conn = set(nodes), (None if conn is None else dict(conn))
    args = (nodes,) if (conn is None and spec.get("omit_connections")) else (nodes, conn)
    if via == "function":
        R = lib(qv.utils.subgraph, G, *args, what="subgraph")
    else:
        R = lib(G.subgraph, *args, what="subgraph(method)")
    res = dict(R)
    detail = "subgraph(%s %r, nodes=%r, connections=%r) = %s %r" % (type(G).__name__, truth, nodes, conn, type(R).__name__, res)
    if type(R) is not type(G):
        raise Violation("result_type/subgraph", detail)
    foreign = [l for l in _labels_in(res) if l not in nodes]
    if foreign:
        raise Violation("outside_label_remains/subgraph", "labels %r; %s" % (foreign, detail))
    body = {k: v for k, v in truth.items() if k != ()}
    free = [l for l in labels if l in nodes]
    scale = 1.0
    for k, v in body.items():
        p = abs(float(v))
        for l in k:
            if l in outside:
                p *= max(1.0, abs(float(outside[l])))
        scale += p
    _compare(body, res, free, outside, spin, exact, scale, "function_differs/subgraph", detail)
    _unchanged(G, snap, "subgraph")
    if nodes != keep_nodes or conn != keep_conn:
        raise Violation("argument_changed/subgraph_nodes_or_connections", detail)
    nontrivial = _shares_term(truth, lambda l: l not in nodes)
    rec.case(spec, nontrivial, sorted(classes | {"subgraph"}))


def _normalize(qv, spec, rec):
    src = spec["src"]
    kind = src["kind"]
    G = _build(qv, src)
    truth = dict(G)
    snap = gen.snapshot(G)
    classes, _ = _common_classes(spec, truth)
    default = bool(spec.get("default"))
    value = 1 if default else spec["value"]
    args = () if default else (value,)
    classes.add("value=default" if default else ("value<0" if value < 0 else "value>0"))
    is_model = not kind.startswith("dict")

    if not truth:
        # function: documented to fail on an empty dict -> not judged; method: must be a no-op
        try:
            lib(qv.utils.normalize, G, *args, expect=(ValueError,), what="normalize")
            rec.add("normalize_empty_function_returned")
        except ValueError:
            rec.add("normalize_empty_function_raised(documented)")
        if is_model:
            lib(G.normalize, *args, what="normalize(method)")
            if dict(G) or gen.snapshot(G) != snap:
                raise Violation("normalize_method_empty_not_noop", "%s: %r -> %r" % (kind, snap, gen.snapshot(G)))
        rec.case(spec, False, sorted(classes | {"normalize", "empty_model"}))
        return

    mags = [abs(v) for v in truth.values()]
    mx = max(mags)
    if mx == 0:
        # raw dict whose entries are all zero: no scale factor exists (out of the statement's domain)
        rec.add("normalize_all_zero_dict_skipped")
        return
    c = value / mx
    top = [v for v in truth.values() if abs(v) == mx]
    if any(v < 0 for v in top):
        classes.add("largest_is_negative")
    if all(v < 0 for v in truth.values()):
        classes.add("all_negative")

    def judge(res, what, rtype):
        detail = "%s(%s %r, value=%r) = %s %r" % (what, type(G).__name__, truth, value if not default else "default(1)", rtype, res)
        if set(res) != set(truth):
            raise Violation("normalize_keys_differ/%s" % what, detail)
        for k, v in truth.items():
            if not ref.close(res[k], c * v, 1e-9, 0.0):
                raise Violation("normalize_not_common_factor/%s" % what,
                                "entry %r: %r, expected %r * %r = %r; %s" % (k, res[k], c, v, c * v, detail))
        m = max(abs(v) for v in res.values())
        if not ref.close(m, abs(value), 1e-9, 0.0):
            raise Violation("normalize_max_magnitude/%s" % what, "max |coef| = %r, requested %r; %s" % (m, abs(value), detail))

    R = lib(qv.utils.normalize, G, *args, what="normalize")
    if type(R) is not type(G):
        raise Violation("result_type/normalize", "%s -> %s" % (type(G).__name__, type(R).__name__))
    judge(dict(R), "normalize", type(R).__name__)
    _unchanged(G, snap, "normalize")
    if is_model:
        G2 = _build(qv, src)
        t2 = type(G2)
        lib(G2.normalize, *args, what="normalize(method)")
        if type(G2) is not t2:
            raise Violation("result_type/normalize(method)", "%s -> %s" % (t2.__name__, type(G2).__name__))
        judge(dict(G2), "normalize(method)", type(G2).__name__)
        for k, v in dict(R).items():
            if not ref.close(dict.__getitem__(G2, k), v, 1e-9, 0.0):
                raise Violation("normalize_function_method_disagree", "key %r: function %r method %r" % (k, v, G2[k]))
        classes.add("function+method")
    nontrivial = len(set(mags)) >= 2
    rec.case(spec, nontrivial, sorted(classes | {"normalize"}))


def subchecks(tier):
    return [
        Sub("subvalue", _subvalue_cases(), run_case, quick=24000, thorough=300000),
        Sub("subgraph", _subgraph_cases(), run_case, quick=24000, thorough=300000),
        Sub("normalize", _normalize_cases(), run_case, quick=6000, thorough=100000),
    ]
