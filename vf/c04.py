"""C04 — boolean/spin conversions, enumerations and exports preserve the function.

Every case builds one *fresh* source (raw dict or one of the ten model types),
applies one conversion / enumeration / export of the library and compares the
result with the source on **all** assignments by numpy truth tables of the
independent evaluator ``vf/ref.py``:

* row index r, bit i of r = boolean value of variable i, spin value = 1 - 2*bit
  (boolean 0 <-> spin +1, boolean 1 <-> spin -1), so source and result tables
  are compared index by index whatever their forms are;
* for the methods (``to_*``, ``to_enumerated``, ``convert_solution``) variable
  ``l`` of the model is variable ``M.mapping[l]`` of the enumerated form.

Result types are asserted only where a docstring states them.
"""
import numpy as np
from hypothesis import strategies as st

from . import gen, polysrc, ref
from .common import Sub, Violation, lib

ID = "C04"
RULE = ("One generated source per case: raw dict (keys with unsorted and repeated labels, any label pool) or one of the ten model "
        "types built by += or by the constructor (refreshed if terms cancelled while building), <= 6 variables, <= 7 terms, "
        "degree <= 6, integer / dyadic coefficients (exact comparison) or arbitrary floats (relative 1e-9); one function out of "
        "pubo_to_puso, puso_to_pubo, qubo_to_quso, quso_to_qubo, to_pubo, to_puso, to_qubo, to_quso, to_enumerated (model degree "
        "<= target degree, so no reduction), convert_solution (all 2^n solutions x boolean/spin form x dict/list/tuple), .Q, "
        ".h/.J, matrix_to_qubo (list of lists / ndarray), qubo_to_matrix (symmetric x array). Non-trivial = the source has >= 2 "
        "variables and a term of degree >= 2 after canonicalisation. Distinct = distinct spec hash.")
ASSUMPTIONS = [
    "sources are in refreshed bookkeeping state (stale states are C14's subject); the ground truth for a model source is its stored dict",
    "the correspondence between a labelled model and its enumerated form is M.mapping (checked to be a bijection onto range(n))",
    "convert_solution is always called with the spin= flag matching the form supplied (all-ones ambiguity is a documented precondition)",
    "result types: exact *Matrix in -> matching *Matrix out and dict / labelled type in -> labelled type out are asserted; "
    "cross cases such as qubo_to_quso(PUBOMatrix) are checked for the function only; to_* methods must return the exact Matrix type "
    "their docstring names",
    "qubo_to_matrix: non-empty source without constant, non-negative integer labels; a labelled QUBO source only with labels exactly 0..n-1",
    "float coefficient cases are compared with tolerance 1e-9 * sum(|coefficients|), dyadic cases exactly",
]

FUNCS = {
    # name: (source is spin, result is spin, labelled result, matrix result, matching matrix input)
    "pubo_to_puso": (False, True, "PUSO", "PUSOMatrix", "PUBOMatrix"),
    "puso_to_pubo": (True, False, "PUBO", "PUBOMatrix", "PUSOMatrix"),
    "qubo_to_quso": (False, True, "QUSO", "QUSOMatrix", "QUBOMatrix"),
    "quso_to_qubo": (True, False, "QUBO", "QUBOMatrix", "QUSOMatrix"),
}
METHOD_RESULT = {"to_pubo": ("PUBOMatrix", False), "to_puso": ("PUSOMatrix", True),
                 "to_qubo": ("QUBOMatrix", False), "to_quso": ("QUSOMatrix", True)}
ENUM_OF = {"QUBO": "to_qubo", "QUSO": "to_quso", "PUBO": "to_pubo", "PCBO": "to_pubo",
           "PUSO": "to_puso", "PCSO": "to_puso"}

# ---------------------------------------------------------------------------
# strategies

_source = polysrc.source


def _case(fn, src, opt=None):
    # options first: Hypothesis biases whatever is drawn after a long prefix towards its simplest value
    return st.fixed_dictionaries({"fn": st.just(fn), "opt": opt if opt is not None else st.just({}), "src": src})


def _contiguous_qubo():
    """Labelled QUBO whose labels are exactly 0..n-1 (documented domain of qubo_to_matrix)."""
    def for_n(n):
        labels = list(range(n))
        return st.fixed_dictionaries({
            "kind": st.just("QUBO"),
            "labels": st.permutations(labels).map(list),
            "ctor": st.sampled_from(["iadd", "dict"]),
            "terms": st.tuples(
                gen.poly_strategy(labels, 5, 2, gen.MIXED_COEFS, True, False, 0, quad=True),
                st.lists(gen.INT_COEFS, min_size=n, max_size=n)),
        }).map(lambda d: dict(d, terms=[[(l,), c] for l, c in zip(d["labels"], d["terms"][1])] + d["terms"][0]))
    return st.integers(1, 5).flatmap(for_n)


def _matrix_src():
    entry = st.one_of(st.just(0), gen.MIXED_COEFS, gen.MIXED_COEFS)

    def for_n(n):
        return st.fixed_dictionaries({
            "kind": st.just("matrix"),
            "as": st.sampled_from(["list", "array", "array_native"]),
            "rows": st.lists(st.lists(entry, min_size=n, max_size=n), min_size=n, max_size=n),
        })
    # 0/1 matrices (adjacency-like) in further element types: python bools, numpy bool / uint8 / int8 arrays
    bit = st.sampled_from([0, 1, 1])

    def for_n01(n):
        return st.fixed_dictionaries({
            "kind": st.just("matrix"),
            "as": st.sampled_from(["list_bool", "array_bool", "array_uint8", "array_native", "list"]),
            "rows": st.lists(st.lists(bit, min_size=n, max_size=n), min_size=n, max_size=n),
        })
    # every entry scaled by 2^-40 (exact): an entry is zero only if it is zero
    tiny = st.integers(1, 5).flatmap(for_n).map(lambda d: dict(d, rows=[[v * 2.0 ** -40 for v in r] for r in d["rows"]],
                                                               **{"as": "list" if d["as"] == "list" else "array"}))
    return st.one_of(st.integers(1, 5).flatmap(for_n), st.integers(1, 5).flatmap(for_n), st.integers(2, 5).flatmap(for_n01),
                     tiny)


def cases():
    B, S, L = gen.BOOL_KINDS, gen.SPIN_KINDS, gen.LABELLED_KINDS
    deg_opt = st.fixed_dictionaries({"deg": st.sampled_from([0, 0, 1, 2])})
    m2q_opt = st.fixed_dictionaries({"symmetric": st.booleans(), "array": st.booleans()})
    # element type of the solution entries: python ints, floats, or numpy scalars (unsigned for the boolean form,
    # signed for the spin form) - the container stays a dict / list / tuple
    cs_opt = st.fixed_dictionaries({"extra": st.booleans(),
                                    "etype": gen.pick(("int", 3), ("np_small", 1), ("np_int64", 1), ("float", 1))})
    return st.one_of(
        _case("pubo_to_puso", _source(["dict_bool", "dict_bool", "dict_bool"] + B)),
        _case("puso_to_pubo", _source(["dict_spin", "dict_spin", "dict_spin"] + S)),
        _case("qubo_to_quso", _source(["dict_bool", "dict_bool", "dict_bool", "QUBO", "QUBOMatrix"] + B, quad=True)),
        _case("quso_to_qubo", _source(["dict_spin", "dict_spin", "dict_spin", "QUSO", "QUSOMatrix"] + S, quad=True)),
        _case("to_pubo", _source(L), deg_opt),
        _case("to_puso", _source(L), deg_opt),
        _case("to_qubo", _source(L, quad=True)),
        _case("to_quso", _source(L, quad=True)),
        _case("to_enumerated", _source(L)),
        _case("convert_solution", _source(L), cs_opt),
        _case("convert_solution", _source(L), cs_opt),
        _case("Q", _source(["QUBOMatrix", "QUBO"])),
        _case("hJ", _source(["QUSOMatrix", "QUSO"])),
        _case("matrix_to_qubo", _matrix_src()),
        _case("qubo_to_matrix", st.one_of(
            _source(["dict_bool"], quad=True, offset=False, int_labels=True, max_raw_len=2),
            _source(["QUBOMatrix"], quad=True, offset=False),
            _contiguous_qubo()), m2q_opt),
    )


# ---------------------------------------------------------------------------
# helpers

def _is_dyadic(v):
    if isinstance(v, bool):
        return False
    if isinstance(v, int):
        return abs(v) <= 64
    return isinstance(v, float) and abs(v) <= 64 and float(v * 8).is_integer()


def _label_class(labels):
    ts = {type(l).__name__ for l in labels}
    if ts == {"int"}:
        return "labels=int_neg" if any(l < 0 for l in labels) else "labels=int"
    if len(ts) == 1:
        return "labels=" + next(iter(ts))
    return "labels=mixed"


def _scale(*polys):
    s = 0.0
    for p in polys:
        for v in p.values():
            s += abs(float(v))
    return s


class Ctx:
    """Per-case comparison settings."""

    def __init__(self, exact):
        self.exact = exact

    def differ(self, ta, tb, scale):
        """Index of the first differing row or None."""
        if self.exact:
            bad = ta != tb
        else:
            bad = np.abs(ta - tb) > 1e-9 * max(scale, 1e-300)
        if bad.any():
            return int(np.nonzero(bad)[0][0])
        return None


def _labels_in(terms):
    out = set()
    for k in terms:
        out.update(k)
    return out


def _check_labels(result_terms, allowed, what, detail):
    extra = [l for l in _labels_in(result_terms) if l not in allowed]
    if extra:
        raise Violation("result_has_foreign_label/%s" % what, "labels %r not among %r; %s" % (extra, sorted(allowed, key=repr), detail))


def _build_source(qv, src, rec, classes):
    kind = src["kind"]
    terms = [(tuple(k), gen.wrap_number(v, src.get("ctype"))) for k, v in src["terms"]]
    if src.get("ctype") not in (None, "plain"):
        classes.add("ctype=" + src["ctype"])
    if kind.startswith("dict"):
        S = gen.terms_dict(terms)
        if any(len(set(k)) != len(k) for k in S):
            classes.add("dict_repeated_label")
        if any(list(k) != sorted(k, key=lambda x: (str(type(x)), x)) for k in S):
            classes.add("dict_unsorted_key")
        if len({frozenset(ref.canon({k: 1}, gen.is_spin(kind)).popitem()[0]) for k in S}) < len(S):
            classes.add("dict_two_keys_same_monomial")
        return S
    builder = gen.build if src.get("ctor", "iadd") == "iadd" else gen.build_from_dict
    S = lib(builder, qv, kind, terms, what="build")
    vs = set()
    deg = None
    for k in dict.keys(S):
        vs.update(k)
        deg = len(k) if deg is None else max(deg, len(k))
    stale = S.variables != vs or (deg is not None and S.degree != deg) or (deg is None and S.degree != -float("inf"))
    if stale:
        # terms cancelled while building: bring the source to the refreshed state
        lib(S.refresh, what="refresh")
        classes.add("refreshed_after_cancellation")
        if S.variables != vs:
            raise Violation("refresh_left_stale_variables", "variables=%r true=%r" % (S.variables, vs))
    return S


def _mapping(S, what):
    mp = S.mapping
    vs = S.variables
    n = S.num_binary_variables
    if set(mp) != vs or sorted(mp.values()) != list(range(n)) or len(vs) != n:
        raise Violation("mapping_not_bijection/%s" % what, "mapping=%r variables=%r n=%r" % (mp, vs, n))
    rmp = S.reverse_mapping
    if rmp != {v: k for k, v in mp.items()}:
        raise Violation("reverse_mapping_not_inverse/%s" % what, "mapping=%r reverse=%r" % (mp, rmp))
    return mp, n


def _unchanged(S, snap, what):
    now = gen.snapshot(S)
    if now != snap:
        raise Violation("source_changed/%s" % what, "before=%r after=%r" % (snap, now))


# ---------------------------------------------------------------------------
# the case runner

def run_case(spec, rec):
    import qubovert as qv
    fn = spec["fn"]
    src = spec["src"]
    opt = spec.get("opt") or {}
    if fn == "matrix_to_qubo":
        return _matrix_to_qubo(qv, spec, rec)

    kind = src["kind"]
    spin = gen.is_spin(kind)
    labels = list(src["labels"])
    classes = {fn, "src=" + kind, _label_class(labels), fn + "<-" + kind}
    exact = all(_is_dyadic(v) for _, v in src["terms"])
    classes.add("coefs=dyadic" if exact else "coefs=float")
    ctx = Ctx(exact)

    S = _build_source(qv, src, rec, classes)
    truth = dict(S)
    snap = gen.snapshot(S)
    can = ref.canon(truth, spin)
    cvars = set()
    for k in can:
        cvars.update(k)
    cdeg = max([len(k) for k in can], default=0)
    classes.add("deg=%d" % cdeg)
    nontrivial = len(cvars) >= 2 and cdeg >= 2

    if fn in FUNCS:
        _function(qv, fn, S, truth, kind, labels, ctx, classes)
    elif fn in ("to_pubo", "to_puso", "to_qubo", "to_quso", "to_enumerated"):
        if not _method(qv, fn, S, truth, kind, opt, ctx, classes, rec):
            return
    elif fn == "convert_solution":
        _convert_solution(qv, S, truth, kind, opt, ctx, classes, rec)
    elif fn == "Q":
        _export_Q(S, truth, labels, ctx)
    elif fn == "hJ":
        _export_hJ(S, truth, labels, ctx)
    elif fn == "qubo_to_matrix":
        if not can:
            rec.add("qubo_to_matrix_empty_source_skipped")
            return
        if kind == "QUBO" and S.variables != set(range(len(S.variables))):
            # a generated term cancelled a variable: labels are no longer 0..n-1 (outside the documented domain)
            rec.add("qubo_to_matrix_noncontiguous_qubo_skipped")
            return
        _qubo_to_matrix(qv, S, truth, kind, opt, ctx, classes)
    else:
        raise AssertionError(fn)

    _unchanged(S, snap, fn)
    rec.case(spec, nontrivial, sorted(classes))


def _function(qv, fn, S, truth, kind, labels, ctx, classes):
    src_spin, dst_spin, labelled, matrix, matching = FUNCS[fn]
    f = getattr(qv.utils, fn)
    R = lib(f, S, what=fn)
    res = dict(R)
    detail = "%s(%s %r) -> %s %r" % (fn, type(S).__name__, truth, type(R).__name__, res)
    _check_labels(res, set(labels), fn, detail)
    ts = ref.table(truth, labels, src_spin)
    tr = ref.table(res, labels, dst_spin)
    bad = ctx.differ(ts, tr, _scale(truth, res))
    if bad is not None:
        raise Violation("function_differs/%s" % fn,
                        "at boolean %r (spin = 1-2b): source %r, result %r; %s" %
                        (ref.assignment(labels, bad, False), ts[bad], tr[bad], detail))
    # documented type rule
    if kind == matching:
        want = getattr(qv.utils, matrix)
        classes.add("type_rule=matrix")
    elif kind.startswith("dict") or kind in gen.LABELLED_KINDS:
        want = getattr(qv, labelled)
        classes.add("type_rule=labelled")
    else:
        want = None
        classes.add("type_rule=cross(not asserted)")
    if want is not None and type(R) is not want:
        raise Violation("result_type/%s" % fn, "%s input gave %s, documented %s; %s" %
                        (kind, type(R).__name__, want.__name__, detail))


def _method(qv, fn, S, truth, kind, opt, ctx, classes, rec):
    spin = gen.is_spin(kind)
    name = ENUM_OF[kind] if fn == "to_enumerated" else fn
    want_name, dst_spin = METHOD_RESULT[name]
    d = S.degree
    if name in ("to_qubo", "to_quso") and d > 2:
        rec.add("skipped_needs_reduction")
        return False
    args = ()
    if fn in ("to_pubo", "to_puso") and kind not in ("QUBO", "QUSO") and opt.get("deg"):
        dd = max(2, d) + (opt["deg"] - 1)
        args = (int(dd),)
        classes.add("deg_arg=degree" if opt["deg"] == 1 else "deg_arg=degree+1")
    mp, n = _mapping(S, fn)
    R = lib(getattr(S, fn), *args, what=fn)
    res = dict(R)
    detail = "%s.%s%r: model=%r mapping=%r -> %s %r" % (kind, fn, args, truth, mp, type(R).__name__, res)
    for l in _labels_in(res):
        if isinstance(l, bool) or not isinstance(l, (int, np.integer)) or not 0 <= l < n:
            raise Violation("enumerated_label_out_of_range/%s" % fn, "label %r not in range(%d); %s" % (l, n, detail))
    order = list(range(n))
    mapped = {}
    for k, v in truth.items():
        mk = tuple(mp[l] for l in k)
        mapped[mk] = mapped.get(mk, 0) + v
    ts = ref.table(mapped, order, spin)
    tr = ref.table(res, order, dst_spin)
    bad = ctx.differ(ts, tr, _scale(truth, res))
    if bad is not None:
        raise Violation("function_differs/%s" % fn,
                        "at boolean %r over mapping integers (spin = 1-2b): source %r, result %r; %s" %
                        (ref.assignment(order, bad, False), ts[bad], tr[bad], detail))
    want = getattr(qv.utils, want_name)
    if type(R) is not want:
        raise Violation("result_type/%s" % fn, "got %s, documented %s; %s" % (type(R).__name__, want_name, detail))
    # "labels replaced by their mapping integers": the mapping in force at the time of the call.  On a copy
    # (the source itself must stay unchanged): export once, install another mapping with the documented
    # set_mapping, export again - the second export has to follow the new mapping.
    if kind in gen.LABELLED_KINDS and n >= 2:
        S2 = lib(S.copy, what="copy")
        lib(getattr(S2, fn), *args, what=fn + "(first export)")
        old_mp = S2.mapping
        new_mp = {l: n - 1 - i for l, i in old_mp.items()}
        lib(S2.set_mapping, new_mp, what="set_mapping")
        if S2.mapping != new_mp:
            raise Violation("set_mapping_not_installed", "asked %r, mapping %r" % (new_mp, S2.mapping))
        R2 = lib(getattr(S2, fn), *args, what=fn + "(after set_mapping)")
        mapped2 = {}
        for k, v in truth.items():
            mk = tuple(new_mp[l] for l in k)
            mapped2[mk] = mapped2.get(mk, 0) + v
        for l in _labels_in(dict(R2)):
            if isinstance(l, bool) or not isinstance(l, (int, np.integer)) or not 0 <= l < n:
                raise Violation("enumerated_label_out_of_range/%s/after_set_mapping" % fn, "label %r; %r" % (l, dict(R2)))
        ts2 = ref.table(mapped2, order, spin)
        tr2 = ref.table(dict(R2), order, dst_spin)
        bad = ctx.differ(ts2, tr2, _scale(truth, dict(R2)))
        if bad is not None:
            raise Violation("function_differs/%s/after_set_mapping" % fn,
                            "export, set_mapping(%r), export again: at %r source %r, result %r; model=%r result=%r" %
                            (new_mp, ref.assignment(order, bad, False), ts2[bad], tr2[bad], truth, dict(R2)))
        classes.add("re_export_after_set_mapping")
    return True


def _convert_solution(qv, S, truth, kind, opt, ctx, classes, rec):
    spin = gen.is_spin(kind)
    mp, n = _mapping(S, "convert_solution")
    E = lib(S.to_enumerated, what="to_enumerated")
    enum = dict(E)
    order = list(range(n))
    for l in _labels_in(enum):
        if isinstance(l, bool) or not isinstance(l, (int, np.integer)) or not 0 <= l < n:
            raise Violation("enumerated_label_out_of_range/to_enumerated", "label %r; model=%r enumerated=%r" % (l, truth, enum))
    tE = ref.table(enum, order, spin)
    variables = set(mp)
    extra = bool(opt.get("extra")) and kind not in ("QUBO", "QUSO")
    if extra:
        classes.add("solution_with_ancilla_entry")
    scale = _scale(truth, enum)
    domain = (1, -1) if spin else (0, 1)
    etype = opt.get("etype") or "int"
    if etype != "int":
        classes.add("solution_entries=" + etype)

    def entries(vals, form_spin):
        if etype == "float":
            return [float(v) for v in vals]
        if etype == "np_int64":
            return [np.int64(v) for v in vals]
        if etype == "np_small":
            return [(np.int8(v) if form_spin else np.uint8(v)) for v in vals]
        return vals

    for r in range(1 << n):
        bits = [(r >> i) & 1 for i in range(n)]
        for form_spin in (False, True):
            vals = [1 - 2 * b for b in bits] if form_spin else list(bits)
            if extra:
                # value of an ancilla of a reduced form; ignored by convert_solution (documented)
                vals = vals + [(-1 if form_spin else 0) if r % 2 else 1]
            vals = entries(vals, form_spin)
            for cont in ("dict", "list", "tuple"):
                if cont == "dict":
                    sol = {i: v for i, v in enumerate(vals)}
                elif cont == "list":
                    sol = list(vals)
                else:
                    sol = tuple(vals)
                keep = sol.copy() if cont != "tuple" else sol
                cs = lib(S.convert_solution, sol, spin=form_spin, what="convert_solution")
                where = "%s.convert_solution(%r, spin=%r) = %r; model=%r mapping=%r" % (kind, sol, form_spin, cs, truth, mp)
                if sol != keep:
                    raise Violation("convert_solution_changed_argument", where)
                if not isinstance(cs, dict) or set(cs) != variables:
                    raise Violation("convert_solution_keys", "keys must be the model's variables %r; %s" % (variables, where))
                for l, i in mp.items():
                    own = (1 - 2 * bits[i]) if spin else bits[i]
                    if cs[l] not in domain or cs[l] != own:
                        raise Violation("convert_solution_assignment/%s_form_%s" % ("spin" if form_spin else "boolean", cont),
                                        "variable %r (integer %d) should be %r; %s" % (l, i, own, where))
                # the flag only matters for all-ones solutions (documented): omit it when the form is unambiguous
                if any(v == (-1 if form_spin else 0) for v in vals):
                    cs2 = lib(S.convert_solution, sol, what="convert_solution(no flag)")
                    if cs2 != cs:
                        raise Violation("convert_solution_noflag/%s_form_%s" % ("spin" if form_spin else "boolean", cont),
                                        "without the flag (form unambiguous) -> %r; %s" % (cs2, where))
                val = ref.ref_value(truth, {k_: int(v_) for k_, v_ in cs.items()})
                tol = 0 if ctx.exact else 1e-9 * scale
                if abs(val - tE[r]) > tol:
                    raise Violation("convert_solution_value/%s_form_%s" % ("spin" if form_spin else "boolean", cont),
                                    "model value %r != enumerated value %r; enumerated=%r; %s" % (val, tE[r], enum, where))
    rec.add("convert_solution_calls", 6 << n)
    # the same after the documented set_mapping with a mapping whose integers are not ascending in
    # insertion order (on a copy; the source must stay unchanged)
    if kind in gen.LABELLED_KINDS and n >= 2:
        S2 = lib(S.copy, what="copy")
        new_mp = {l: n - 1 - i for l, i in S2.mapping.items()}
        lib(S2.set_mapping, new_mp, what="set_mapping")
        for r in range(1 << n):
            bits = [(r >> i) & 1 for i in range(n)]
            for form_spin in (False, True):
                vals = [1 - 2 * b for b in bits] if form_spin else list(bits)
                for cont, sol in (("dict", dict(enumerate(vals))), ("list", list(vals)), ("tuple", tuple(vals))):
                    cs = lib(S2.convert_solution, sol, spin=form_spin, what="convert_solution(after set_mapping)")
                    for l, i in new_mp.items():
                        own = (1 - 2 * bits[i]) if spin else bits[i]
                        if cs.get(l) != own:
                            raise Violation("convert_solution_after_set_mapping/%s_form_%s" % ("spin" if form_spin else "boolean", cont),
                                            "mapping %r, solution %r (spin=%r) -> %r; variable %r (integer %d) should be %r" %
                                            (new_mp, sol, form_spin, cs, l, i, own))
        classes.add("convert_solution_after_set_mapping")


def _export_Q(S, truth, labels, ctx):
    Q = lib(lambda: S.Q, what="Q")
    detail = "%s %r .Q = %r" % (type(S).__name__, truth, Q)
    if type(Q) is not dict:
        raise Violation("export_type/Q", "plain dict documented; " + detail)
    for k in Q:
        if not isinstance(k, tuple) or len(k) != 2:
            raise Violation("export_key_format/Q", "every key must be a tuple of two labels, got %r; %s" % (k, detail))
    _check_labels(Q, set(labels), "Q", detail)
    ts = ref.table(truth, labels, False)
    tq = ref.table(Q, labels, False) + float(truth.get((), 0))
    bad = ctx.differ(ts, tq, _scale(truth, Q))
    if bad is not None:
        raise Violation("function_differs/Q", "at %r: source %r, sum Q_ij x_i x_j + offset = %r; %s" %
                        (ref.assignment(labels, bad, False), ts[bad], tq[bad], detail))


def _export_hJ(S, truth, labels, ctx):
    h = lib(lambda: S.h, what="h")
    J = lib(lambda: S.J, what="J")
    detail = "%s %r .h = %r .J = %r" % (type(S).__name__, truth, h, J)
    if type(h) is not dict or type(J) is not dict:
        raise Violation("export_type/hJ", "plain dicts documented; " + detail)
    for k in h:
        if k not in set(labels):
            raise Violation("export_key_format/h", "key %r is not a variable; %s" % (k, detail))
    for k in J:
        if not isinstance(k, tuple) or len(k) != 2:
            raise Violation("export_key_format/J", "key %r is not a pair; %s" % (k, detail))
    _check_labels(J, set(labels), "J", detail)
    terms = {(k,): v for k, v in h.items()}
    terms.update(J)
    ts = ref.table(truth, labels, True)
    tq = ref.table(terms, labels, True) + float(truth.get((), 0))
    bad = ctx.differ(ts, tq, _scale(truth, terms))
    if bad is not None:
        raise Violation("function_differs/hJ", "at spins %r: source %r, h.z + zJz + offset = %r; %s" %
                        (ref.assignment(labels, bad, True), ts[bad], tq[bad], detail))


def _quadratic_form(A):
    n = A.shape[0]
    cols = ref.columns(n, False)
    X = np.stack(cols, axis=1) if n else np.zeros((1, 0))
    return np.einsum("ri,ij,rj->r", X, A, X)


def _qubo_to_matrix(qv, S, truth, kind, opt, ctx, classes):
    sym, arr = bool(opt.get("symmetric")), bool(opt.get("array", True))
    classes.add("symmetric=%s,array=%s" % (sym, arr))
    R = lib(qv.utils.qubo_to_matrix, S, symmetric=sym, array=arr, what="qubo_to_matrix")
    detail = "qubo_to_matrix(%s %r, symmetric=%r, array=%r) = %r" % (type(S).__name__, truth, sym, arr, R)
    if arr:
        if not isinstance(R, np.ndarray):
            raise Violation("result_type/qubo_to_matrix", "numpy array documented; " + detail)
    else:
        if type(R) is not list or not all(type(row) is list for row in R):
            raise Violation("result_type/qubo_to_matrix", "list of lists documented; " + detail)
    A = np.array(R, dtype=float)
    # zero-valued raw entries name variables without influence: the matrix need not cover them
    truth = ref.canon_to_terms(ref.canon(truth, False))
    top = max(_labels_in(truth))
    if A.ndim != 2 or A.shape[0] != A.shape[1] or A.shape[0] < top + 1:
        raise Violation("matrix_shape/qubo_to_matrix", "need a square matrix covering index %d; %s" % (top, detail))
    n = A.shape[0]
    if n > 12:
        raise Violation("matrix_shape/qubo_to_matrix", "matrix far larger than the largest index %d; %s" % (top, detail))
    ts = ref.table(truth, list(range(n)), False)
    tq = _quadratic_form(A)
    bad = ctx.differ(ts, tq, _scale(truth) + float(np.abs(A).sum()))
    if bad is not None:
        raise Violation("function_differs/qubo_to_matrix(symmetric=%s)" % sym, "at %r: source %r, x.M.x = %r; %s" %
                        (ref.assignment(list(range(n)), bad, False), ts[bad], tq[bad], detail))
    if sym:
        if not np.array_equal(A, A.T):
            raise Violation("matrix_not_symmetric/qubo_to_matrix", detail)
    else:
        if np.tril(A, -1).any():
            raise Violation("matrix_not_upper_triangular/qubo_to_matrix", detail)


def _matrix_to_qubo(qv, spec, rec):
    src = spec["src"]
    rows = [list(r) for r in src["rows"]]
    n = len(rows)
    how = src["as"]
    classes = {"matrix_to_qubo", "src=matrix:" + how, "labels=int"}
    if how == "list":
        arg = [list(r) for r in rows]
        keep = [list(r) for r in rows]
    elif how == "array":
        arg = np.array(rows, dtype=float)
        keep = arg.copy()
    elif how == "list_bool":
        arg = [[bool(v) for v in r] for r in rows]
        keep = [list(r) for r in arg]
    elif how in ("array_bool", "array_uint8"):
        arg = np.array(rows, dtype=bool if how == "array_bool" else np.uint8)
        keep = arg.copy()
    else:
        arg = np.array(rows)          # integer dtype when every entry is an int
        keep = arg.copy()
    R = lib(qv.utils.matrix_to_qubo, arg, what="matrix_to_qubo")
    res = dict(R)
    detail = "matrix_to_qubo(%r as %s) = %s %r" % (rows, how, type(R).__name__, res)
    if type(R) is not qv.utils.QUBOMatrix:
        raise Violation("result_type/matrix_to_qubo", "QUBOMatrix documented; " + detail)
    _check_labels(res, set(range(n)), "matrix_to_qubo", detail)
    A = np.array(rows, dtype=float)
    tq = _quadratic_form(A)
    tr = ref.table(res, list(range(n)), False)
    bad = Ctx(True).differ(tq, tr, 0)
    if bad is not None:
        raise Violation("function_differs/matrix_to_qubo", "at %r: x.M.x = %r, result %r; %s" %
                        (ref.assignment(list(range(n)), bad, False), tq[bad], tr[bad], detail))
    same = (arg == keep) if how in ("list", "list_bool") else np.array_equal(arg, keep)
    if not same:
        raise Violation("source_changed/matrix_to_qubo", detail)
    offdiag = any(rows[i][j] for i in range(n) for j in range(n) if i != j)
    if any(rows[i][j] and rows[j][i] for i in range(n) for j in range(i)):
        classes.add("matrix_both_triangles")
    rec.case(spec, n >= 2 and offdiag, sorted(classes))


# ---------------------------------------------------------------------------
# lifecycle: the same properties along the life of one object.  Conversions and convert_solution are functions of the
# model *as it is at the time of the call*: exports handed out earlier (and edited by the caller), clear() + rebuild,
# a variable dropping out followed by refresh() and a new variable coming in, set_mapping - none of them may leave
# anything behind that a later export or convert_solution still uses.

LIFE_OPS = ("poison_exports", "rebuild", "rebuild_same_labels", "drop_add", "remap", "remap_reverse", "edit")


def lifecycle_cases():
    def for_kind(kind):
        quad, spin = gen.is_quad(kind), gen.is_spin(kind)

        def for_labels(labels):
            poly = gen.poly_strategy(labels, 5, 2 if quad else 3, gen.MIXED_COEFS, repeats=False, min_terms=1,
                                     quad=quad, spin=spin)
            return st.fixed_dictionaries({
                "kind": st.just(kind), "labels": st.just(labels),
                "terms": poly, "terms2": poly, "perm": st.permutations(list(range(len(labels)))),
                "ops": st.lists(st.sampled_from(LIFE_OPS), min_size=1, max_size=4),
                "pick": st.integers(0, 7), "coef": gen.INT_COEFS,
            })
        return gen.label_pool(False, 2, 4).flatmap(for_labels)
    return st.sampled_from(gen.LABELLED_KINDS).flatmap(for_kind)


def _life_check(qv, M, kind, step, poison):
    """Every applicable export of M equals M on all assignments under M.mapping; convert_solution inverts it."""
    spin = gen.is_spin(kind)
    truth = ref.canon_to_terms(ref.canon(dict(M), spin))
    mp, n = _mapping(M, "lifecycle/" + step)
    order = list(range(n))
    mapped = {}
    for k, v in truth.items():
        mk = tuple(mp[l] for l in k)
        mapped[mk] = mapped.get(mk, 0) + v
    ts = ref.table(mapped, order, spin)
    deg = max([len(k) for k in truth], default=0)
    fns = ["to_enumerated", "to_pubo", "to_puso"] + (["to_qubo", "to_quso"] if deg <= 2 else [])
    for fn in fns:
        R = lib(getattr(M, fn), what=fn)
        dst_spin = METHOD_RESULT[ENUM_OF[kind] if fn == "to_enumerated" else fn][1]
        res = dict(R)
        for l in _labels_in(res):
            if isinstance(l, bool) or not isinstance(l, (int, np.integer)) or not 0 <= l < n:
                raise Violation("lifecycle/label_out_of_range/%s" % fn, "after %s: label %r; model=%r mapping=%r result=%r" % (step, l, dict(M), mp, res))
        tr = ref.table(res, order, dst_spin)
        if not np.array_equal(ts, tr):
            bad = int(np.nonzero(ts != tr)[0][0])
            raise Violation("lifecycle/function_differs/%s" % fn,
                            "after %s: at boolean %r over mapping integers source %r, %s gives %r; model=%r mapping=%r result=%r" %
                            (step, ref.assignment(order, bad, False), ts[bad], fn, tr[bad], dict(M), mp, res))
        if poison:
            # the caller owns the returned object: edit it in place (rescale, shift, overwrite a term)
            def f(R=R):
                R *= 3
                R += 1
                R[(0,)] = 7
            lib(f, what="edit of the returned " + fn + " result")
    variables = set(mp)
    for r in range(1 << n):
        bits = [(r >> i) & 1 for i in range(n)]
        for form_spin in (False, True):
            vals = [1 - 2 * b for b in bits] if form_spin else list(bits)
            want = {l: ((1 - 2 * bits[i]) if spin else bits[i]) for l, i in mp.items()}
            for cont, sol in (("dict", dict(enumerate(vals))), ("list", list(vals)), ("tuple", tuple(vals))):
                cs = lib(M.convert_solution, sol, spin=form_spin, what="convert_solution")
                if not isinstance(cs, dict) or set(cs) != variables or cs != want:
                    raise Violation("lifecycle/convert_solution/%s" % cont,
                                    "after %s: %s.convert_solution(%r, spin=%r) = %r, expected %r; model=%r mapping=%r" %
                                    (step, kind, sol, form_spin, cs, want, dict(M), mp))


def run_lifecycle(spec, rec):
    import warnings
    import qubovert as qv
    kind = spec["kind"]
    labels = list(spec["labels"])
    spin = gen.is_spin(kind)
    with warnings.catch_warnings():
        warnings.simplefilter("ignore")
        M = lib(gen.build, qv, kind, spec["terms"], what="build")
        lib(M.refresh, what="refresh")
        _life_check(qv, M, kind, "build", False)
        classes = {kind}
        for op in spec["ops"]:
            if op == "poison_exports":
                _life_check(qv, M, kind, "build", True)
            elif op in ("rebuild", "rebuild_same_labels"):
                lib(M.clear, what="clear")
                if op == "rebuild":
                    terms = spec["terms2"]
                else:                       # the same polynomial entered in another order: same labels, other integers
                    terms = list(reversed([list(t) for t in spec["terms"]]))

                def f():
                    for k, v in terms:
                        M[tuple(k)] += v
                lib(f, what="rebuild")
                lib(M.refresh, what="refresh")
            elif op == "drop_add":
                vs = sorted(M.variables, key=labels.index) if all(v in labels for v in M.variables) else []
                if not vs:
                    rec.add("lifecycle_skipped_step")
                    continue
                gone = vs[spec["pick"] % len(vs)]
                keep = [v for v in vs if v != gone]

                def f():
                    for k in [k for k in dict.keys(M) if gone in k]:
                        M[k] -= M[k]
                lib(f, what="cancel")
                lib(M.refresh, what="refresh")

                def g():
                    new = "n_e_w"
                    M[(new,) if not keep else (keep[-1], new)] += spec["coef"]
                lib(g, what="add variable")
            elif op in ("remap", "remap_reverse"):
                mp = M.mapping
                n = len(mp)
                if n < 2:
                    rec.add("lifecycle_skipped_step")
                    continue
                new = {l: (i + 1) % n for l, i in mp.items()}
                if op == "remap":
                    lib(M.set_mapping, new, what="set_mapping")
                else:
                    lib(M.set_reverse_mapping, {i: l for l, i in new.items()}, what="set_reverse_mapping")
                if M.mapping != new:
                    raise Violation("lifecycle/%s_not_installed" % op, "asked %r got %r" % (new, M.mapping))
            elif op == "edit":
                keys = sorted(dict.keys(M), key=repr)
                if not keys:
                    rec.add("lifecycle_skipped_step")
                    continue
                k = keys[spec["pick"] % len(keys)]

                def f():
                    M[k] += spec["coef"]
                lib(f, what="edit")
                lib(M.refresh, what="refresh")
            classes.add(op)
            _life_check(qv, M, kind, op, False)
    rec.case(spec, len(set(spec["ops"])) >= 2, sorted(classes))


# ---------------------------------------------------------------------------
# high degree: terms of degree 7..12 over a 12-label pool (the expansion of one boolean term of degree d has 2^d spin
# terms and vice versa; anything that depends on the degree shows only here)

HIGH_POOLS = [list(range(12)), ["v%d" % i for i in range(12)],
              [0, "a", 1, "b", ("x", 1), -3, 7, "c", ("y", 0), 11, "d", 5]]


def highdeg_cases():
    def for_fn(fn):
        spin_src = fn in ("puso_to_pubo",) or fn.endswith("<-spin")
        name = fn.split("<-")[0]
        if name in FUNCS:
            kinds = (["dict_spin", "PUSO", "PUSOMatrix"] if FUNCS[name][0] else ["dict_bool", "PUBO", "PUBOMatrix"])
        else:
            kinds = ["PUSO", "PCSO"] if spin_src else ["PUBO", "PCBO"]

        def for_kind(kind):
            pools = [HIGH_POOLS[0]] if gen.is_matrix(kind) else HIGH_POOLS
            return st.sampled_from(pools).flatmap(lambda pool: st.integers(7, 12).flatmap(lambda n: st.fixed_dictionaries({
                "fn": st.just(name), "opt": st.just({}),
                "src": st.fixed_dictionaries({
                    "kind": st.just(kind), "labels": st.just(list(pool[:n])), "ctor": st.sampled_from(["iadd", "dict"]),
                    "ctype": gen.CTYPE,
                    "terms": st.tuples(
                        st.lists(st.tuples(gen.key_strategy(list(pool[:n]), n, False, min_deg=7), gen.INT_COEFS).map(list),
                                 min_size=1, max_size=2),
                        gen.poly_strategy(list(pool[:n]), 3, 4, gen.MIXED_COEFS)).map(lambda t: t[0] + t[1]),
                })})))
        return st.sampled_from(kinds).flatmap(for_kind)
    fns = ["pubo_to_puso", "puso_to_pubo", "to_puso", "to_pubo", "to_puso<-spin", "to_pubo<-spin", "to_enumerated",
           "to_enumerated<-spin"]
    return st.sampled_from(fns).flatmap(for_fn)


def subchecks(tier):
    return [Sub("convert", cases(), run_case, quick=48000, thorough=600000),
            Sub("highdeg", highdeg_cases(), run_case, quick=600, thorough=12000),
            Sub("lifecycle", lifecycle_cases(), run_lifecycle, quick=5000, thorough=80000)]
