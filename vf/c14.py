"""C14 — model bookkeeping stays consistent under every history of edits.

Generated histories of documented edits are applied to a real model; after
every step the cached bookkeeping (variables, degree, num_binary_variables,
mapping, reverse_mapping, max_index) is compared with the *stored polynomial*
(``dict(M)``), which is the ground truth for "true variables / true degree".
At generated points every available enumerated / reduced form is checked for
label discipline and, by truth table, for ``min over ancillas == M``.
"""
import warnings

import numpy as np
from hypothesis import strategies as st

from . import gen, ref
from .common import Sub, Violation, lib

ID = "C14"
RULE = ("Hypothesis-generated edit histories (1..30 steps from: item assignment incl. zero, += / -= on items, "
        "cancellation of an existing term, in-place + - * / ** with scalars, dicts and models, update, clear, refresh, "
        "comparison constraints on PCBO/PCSO, derived models via subs()/round(), copy / switch-to-copy, observation of to_* forms) on all ten model types, "
        "keys with repeated and unsorted labels. Non-trivial = history contains a zero assignment to a new label, a key with a "
        "repeated label, a cancellation, or a constraint after an in-place product, AND at least one observation of reduced "
        "forms or a refresh. Distinct = distinct spec hash.")
ASSUMPTIONS = [
    "ground truth for 'true variables/degree' is the stored dict of the model itself (arithmetic correctness is C05's subject)",
    "operands never carry labels starting with '__a' (reserved by the documentation); set_mapping is not an edit",
    "truth-table comparison of reduced forms only when num_binary_variables <= 9 and total variables <= 16",
    "after an explicit clear() ancilla numbering may restart (the model is empty), so seen names are forgotten there",
]

RELS = ["eq", "ne", "lt", "le", "gt", "ge"]


def _ops(kind, labels):
    spin = gen.is_spin(kind)
    quad = gen.is_quad(kind)
    key = gen.poly_strategy(labels, 1, 4, st.just(1), repeats=True, min_terms=1, quad=quad, spin=spin).map(
        lambda t: tuple(t[0][0]))
    coef0 = st.one_of(gen.MIXED_COEFS, st.just(0))
    small_poly = gen.poly_strategy(labels, 3, 3, gen.MIXED_COEFS, repeats=True, quad=quad, spin=spin)
    lin_poly = gen.poly_strategy(labels, 3, 1, gen.INT_COEFS, repeats=False)
    cpoly = gen.poly_strategy(labels, 3, 2, gen.SMALL_INT_COEFS, repeats=False, min_terms=1)
    operand = st.one_of(
        st.tuples(st.just("scalar"), st.one_of(gen.MIXED_COEFS, st.just(0))),
        st.tuples(st.just("dict"), small_poly),
        st.tuples(st.just("model"), small_poly),
    )
    mul_operand = st.one_of(
        st.tuples(st.just("scalar"), st.one_of(gen.MIXED_COEFS, st.just(0))),
        st.tuples(st.just("dict"), lin_poly if quad else small_poly),
        st.tuples(st.just("model"), lin_poly if quad else small_poly),
    )
    ops = [
        st.tuples(st.just("set"), key, coef0),
        st.tuples(st.just("set"), key, st.just(0)),
        st.tuples(st.just("iadd_item"), key, coef0),
        st.tuples(st.just("isub_item"), key, coef0),
        st.tuples(st.just("cancel"), st.integers(0, 20)),
        st.tuples(st.just("iadd"), operand),
        st.tuples(st.just("isub"), operand),
        st.tuples(st.just("imul"), mul_operand),
        st.tuples(st.just("idiv"), st.sampled_from([2, -4, 0.5])),
        st.tuples(st.just("ipow"), st.sampled_from([1, 2, 2, 3])),
        st.tuples(st.just("update"), small_poly),
        st.tuples(st.just("clear")),
        st.tuples(st.just("refresh")),
        st.tuples(st.just("copy")),
        st.tuples(st.just("switch")),
        st.tuples(st.just("observe")),
        st.tuples(st.just("observe")),
    ]
    if kind in ("PCBO", "PCSO"):
        # derived models: subs() / round() and out-of-place arithmetic or the copy constructor - the result still
        # contains the ancillas of its source, so it has to keep counting where the source stopped
        ops.append(st.tuples(st.just("derive"), st.sampled_from(["subs", "round", "mul2", "rmul3", "neg", "add1", "rsub1",
                                                                  "ctor", "div2"])))
        cons = st.tuples(st.just("constraint"), st.sampled_from(RELS), cpoly,
                         st.sampled_from([0.5, 1, 2]), st.booleans())
        ops += [cons, cons, cons]
        # update() with a constrained model of the same type: the library merges the recorded constraints, so the
        # ancillas that come along must be counted too (generated only while the target has no ancillas of its own,
        # otherwise equal names of different origin would be conflated by the update itself)
        ops.append(st.tuples(st.just("update_constrained"), st.sampled_from(RELS), cpoly,
                             st.sampled_from([0.5, 1, 2]), st.booleans()))
    return st.one_of(ops)


def history():
    def for_kind(kind):
        return gen.label_pool(gen.is_matrix(kind), 2, 5).flatmap(
            lambda labels: st.fixed_dictionaries({
                "kind": st.just(kind),
                "labels": st.just(labels),
                "init": gen.poly_strategy(labels, 4, 4, gen.MIXED_COEFS, repeats=True,
                                          quad=gen.is_quad(kind), spin=gen.is_spin(kind)),
                "ops": st.lists(_ops(kind, labels), min_size=1, max_size=30),
                # number type of every value this history hands to the model (zeros included): python numbers,
                # numpy scalars or Fractions
                "ctype": gen.CTYPE,
            }))
    return st.sampled_from(gen.ALL_KINDS + ["PCBO", "PCSO", "PCBO", "PCSO", "PUSO", "PUBO"]).flatmap(for_kind)


# ---------------------------------------------------------------------------

def _is_anc(l):
    return isinstance(l, str) and l.startswith("__a")


def true_stats(M):
    items = dict.items(M)
    vs, deg = set(), None
    for k, v in items:
        vs.update(k)
        deg = len(k) if deg is None else max(deg, len(k))
    return vs, deg


def check_bookkeeping(M, kind, step, exact=False):
    vs, deg = true_stats(M)
    for k, v in dict.items(M):
        if not v:
            raise Violation("zero_coefficient_stored/%s" % step, "key %r has value %r" % (k, v))
    variables = M.variables
    nbv = M.num_binary_variables
    degree = M.degree
    if not vs <= variables:
        raise Violation("variables_not_upper_bound/%s" % step,
                        "true variables %r not within reported %r; terms=%r" % (vs, variables, dict(M)))
    if deg is not None and not deg <= degree:
        raise Violation("degree_not_upper_bound/%s" % step, "true degree %r > reported %r" % (deg, degree))
    if len(vs) > nbv:
        raise Violation("nbv_not_upper_bound/%s" % step, "true #variables %d > num_binary_variables %r" % (len(vs), nbv))
    if len(variables) != nbv:
        raise Violation("nbv_ne_len_variables/%s" % step, "len(variables)=%d, num_binary_variables=%r" % (len(variables), nbv))
    if gen.is_matrix(kind):
        mi = M.max_index
        want = max(variables) if variables else None
        if mi != want:
            raise Violation("max_index/%s" % step, "max_index=%r, variables=%r" % (mi, variables))
    else:
        mp, rmp = M.mapping, M.reverse_mapping
        if set(mp.keys()) != variables:
            raise Violation("mapping_keys_ne_variables/%s" % step,
                            "mapping=%r variables=%r terms=%r" % (mp, variables, dict(M)))
        if sorted(mp.values()) != list(range(nbv)):
            raise Violation("mapping_not_onto_range/%s" % step, "mapping=%r nbv=%r" % (mp, nbv))
        if rmp != {v: k for k, v in mp.items()} or len(rmp) != len(mp):
            raise Violation("reverse_mapping_not_inverse/%s" % step, "mapping=%r reverse=%r" % (mp, rmp))
        if M.max_index != nbv - 1:
            raise Violation("max_index/%s" % step, "max_index=%r nbv=%r" % (M.max_index, nbv))
    if exact:
        if variables != vs or nbv != len(vs):
            raise Violation("not_exact_after/%s" % step, "variables=%r true=%r nbv=%r" % (variables, vs, nbv))
        if (deg is not None and degree != deg) or (deg is None and not degree <= 0):
            raise Violation("degree_not_exact_after/%s" % step, "degree=%r true=%r" % (degree, deg))


def _forms(kind):
    if kind in ("QUBO", "QUSO"):
        return [("to_qubo", ()), ("to_quso", ()), ("to_pubo", ()), ("to_puso", ()), ("to_enumerated", ())]
    return [("to_pubo", ()), ("to_puso", ()), ("to_qubo", ()), ("to_quso", ()),
            ("to_pubo", (2,)), ("to_puso", (2,)), ("to_pubo", (3,)), ("to_puso", (3,)), ("to_enumerated", ())]


def observe(M, kind, rec):
    """Label discipline and function equality of every to_* form."""
    if gen.is_matrix(kind):
        return
    spin_src = gen.is_spin(kind)
    nbv = M.num_binary_variables
    mp = M.mapping
    rmp = M.reverse_mapping
    vs, _ = true_stats(M)
    allowed = {mp[v] for v in vs}
    src_terms = {tuple(mp[l] for l in k): v for k, v in dict.items(M)}
    tm = None
    if nbv <= 9:
        tm = ref.table(src_terms, list(range(nbv)), spin_src)
    for name, args in _forms(kind):
        D = lib(getattr(M, name), *args, what=name)
        spin_dst = name in ("to_quso", "to_puso") or (name == "to_enumerated" and spin_src)
        labels = set()
        for k in D:
            labels.update(k)
        for l in labels:
            if not isinstance(l, int) or isinstance(l, bool) or l < 0:
                raise Violation("form_label_not_nonneg_int/%s" % name, "label %r in %s%r: %r" % (l, name, args, dict(D)))
        low = {l for l in labels if l < nbv}
        if not low <= allowed:
            raise Violation("form_uses_unmapped_label/%s" % name,
                            "labels %r < nbv=%d are not mapping images of true variables %r; mapping=%r form=%r" %
                            (low - allowed, nbv, vs, mp, dict(D)))
        anc = sorted(l for l in labels if l >= nbv)
        if args and D and max(len(k) for k in D) > args[0]:
            raise Violation("form_degree/%s" % name, "degree > %r: %r" % (args[0], dict(D)))
        total = nbv + len(anc)
        if tm is None or total > 16:
            rec.add("observe_too_big")
            continue
        order = list(range(nbv)) + anc
        td = ref.table(dict(D), order, spin_dst)
        td = td.reshape(1 << len(anc), 1 << nbv)
        # boolean b <-> spin 1-2b: same row index in both tables
        mn = td.min(axis=0)
        scale = sum(abs(v) for v in dict.values(D)) + sum(abs(v) for v in src_terms.values())
        ok = np.abs(mn - tm) <= 1e-9 * scale
        if not ok.all():
            bad = int(np.nonzero(~ok)[0][0])
            raise Violation("form_function_differs/%s" % name,
                            "%s%r: at x=%r min over ancillas %r != model %r; model=%r mapping=%r form=%r" %
                            (name, args, ref.assignment([rmp[i] for i in range(nbv)], bad, spin_src),
                             mn[bad], tm[bad], dict(M), mp, dict(D)))
        rec.add("observe_forms_checked")


def run_case(spec, rec):
    import qubovert as qv
    with warnings.catch_warnings():
        warnings.simplefilter("ignore")
        _run(spec, rec, qv)


def _run(spec, rec, qv):
    kind = spec["kind"]
    spin = gen.is_spin(kind)
    quad = gen.is_quad(kind)
    cls = gen.cls_of(qv, kind)
    classes = {kind}
    flags = set()

    ctype = spec.get("ctype") or "plain"
    if ctype != "plain":
        classes.add("ctype=" + ctype)

    def W(v):
        return gen.wrap_number(v, ctype)
    M = lib(gen.build, qv, kind, gen.wrap_terms(spec["init"], ctype), what="build")
    if any(len(set(k)) != len(k) for k, _ in spec["init"]):
        flags.add("repeated_label")
    check_bookkeeping(M, kind, "build")
    other = None          # (model, snapshot, names_seen)
    names_seen = {l for l in M.variables if _is_anc(l)}
    after_product = False

    def operand_obj(o):
        if o[0] == "scalar":
            return W(o[1])
        if o[0] == "dict":
            return gen.terms_dict(gen.wrap_terms(o[1], ctype))
        return gen.build(qv, kind, gen.wrap_terms(o[1], ctype))

    for op in spec["ops"]:
        name = op[0]
        exact = False
        if name in ("set", "iadd_item", "isub_item"):
            key, v = tuple(op[1]), W(op[2])
            if len(set(key)) != len(key):
                flags.add("repeated_label")
            if name == "set":
                if v == 0 and any(l not in M.variables for l in key):
                    flags.add("zero_to_new_label")

                def f():
                    M[key] = v
            elif name == "iadd_item":
                def f():
                    M[key] += v
            else:
                def f():
                    M[key] -= v
            lib(f, what=name)
        elif name == "cancel":
            keys = list(dict.keys(M))
            if not keys:
                rec.add("skipped")
                continue
            k = keys[op[1] % len(keys)]
            flags.add("cancellation")

            def f():
                M[k] -= M[k]
            lib(f, what="cancel")
        elif name in ("iadd", "isub"):
            o = operand_obj(op[1])
            if op[1][0] != "scalar" and any(len(set(k)) != len(k) for k, _ in op[1][1]):
                flags.add("repeated_label")

            def f(M=M):
                if name == "iadd":
                    M += o
                else:
                    M -= o
                return M
            M2 = lib(f, what=name)
            if M2 is not M:
                raise Violation("inplace_returned_new_object/%s" % name, "")
        elif name == "imul":
            o = operand_obj(op[1])
            if op[1][0] != "scalar":
                if quad and any(len(k) > 1 for k in dict.keys(M)):
                    rec.add("skipped")
                    continue
                if len(M) * max(1, len(o)) > 60:
                    rec.add("skipped")
                    continue
            if max((abs(float(v)) for v in dict.values(M)), default=0.0) > 1e30:
                rec.add("skipped_magnitude_cap")
                continue
            if op[1][0] != "scalar":
                after_product = True

            def f(M=M):
                M *= o
                return M
            lib(f, what="imul")
        elif name == "idiv":
            c = W(op[1])

            def f(M=M):
                M /= c
                return M
            lib(f, what="idiv")
        elif name == "ipow":
            e = op[1]
            if quad and any(len(k) > 1 for k in dict.keys(M)) and e > 1:
                rec.add("skipped")
                continue
            if quad and e > 2:
                rec.add("skipped")
                continue
            if len(M) ** e > 80:
                rec.add("skipped")
                continue
            if max((abs(float(v)) for v in dict.values(M)), default=0.0) > 1e30:
                # repeated squaring overflows to inf and then nan within a few dozen steps; magnitudes stay finite by
                # construction (found by the coverage-guided stage of the thorough tier)
                rec.add("skipped_magnitude_cap")
                continue
            if e > 1:
                after_product = True

            def f(M=M):
                M **= e
                return M
            lib(f, what="ipow")
        elif name == "update":
            lib(M.update, gen.terms_dict(gen.wrap_terms(op[1], ctype)), what="update")
        elif name == "update_constrained":
            rel, terms, lam, log_trick = op[1], op[2], op[3], op[4]
            if names_seen or M.num_ancillas or any(_is_anc(l) for l in M.variables):
                rec.add("skipped")
                continue
            G = cls()
            kwargs = {"lam": lam}
            if rel != "eq":
                kwargs["log_trick"] = log_trick
            lib(getattr(G, "add_constraint_%s_zero" % rel), gen.terms_dict(terms), what="constraint_" + rel, **kwargs)
            lib(M.update, G, what="update(model with constraints)")
            if any(_is_anc(l) for l in G.variables):
                flags.add("update_brought_ancillas")
        elif name == "clear":
            lib(M.clear, what="clear")
            names_seen = set()
            after_product = False
            exact = True
        elif name == "refresh":
            before = ref.canon(dict(M), spin)
            lib(M.refresh, what="refresh")
            if ref.canon(dict(M), spin) != before:
                raise Violation("refresh_changed_function", "before=%r after=%r" % (before, dict(M)))
            exact = True
            flags.add("refreshed")
        elif name == "copy":
            C = lib(M.copy, what="copy")
            if type(C) is not type(M):
                raise Violation("copy_type", "%s -> %s" % (type(M).__name__, type(C).__name__))
            if dict(C) != dict(M):
                raise Violation("copy_terms_differ", "%r vs %r" % (dict(C), dict(M)))
            check_bookkeeping(C, kind, "copy(result)")
            other = [C, gen.snapshot(C), set(names_seen)]
            flags.add("copied")
        elif name == "switch":
            if other is None:
                rec.add("skipped")
                continue
            cur = [M, gen.snapshot(M), set(names_seen)]
            M, _, names_seen = other
            other = cur
            flags.add("switched")
        elif name == "constraint":
            rel, terms, lam, log_trick = op[1], op[2], op[3], op[4]
            P = gen.terms_dict(terms)
            before = ref.canon(dict(M), spin)
            kwargs = {"lam": lam}
            if rel != "eq":
                kwargs["log_trick"] = log_trick
            lib(getattr(M, "add_constraint_%s_zero" % rel), P, what="constraint_" + rel, **kwargs)
            after = ref.canon(dict(M), spin)
            F = ref.poly_add(after, before, -1)
            used = {l for k in F for l in k if _is_anc(l)}
            reused = used & names_seen
            if reused:
                how = "after_derive" if flags & {"derived_subs", "derived_round"} else ("after_product" if after_product else (
                    "after_update_with_constrained_model" if "update_brought_ancillas" in flags else "plain"))
                raise Violation("ancilla_name_reused/%s" % how,
                                "constraint %s reuses %r (seen before: %r); model=%r" % (rel, sorted(reused), sorted(names_seen), dict(M)))
            if after_product:
                flags.add("constraint_after_product")
            classes.add("constraint")
        elif name == "derive":
            # a derived model (subs without symbols / round to 6 digits: both keep every dyadic coefficient)
            # still contains the ancillas, so it has to keep counting from where the original stopped
            before = ref.canon(dict(M), spin)
            if op[1] == "subs":
                D = lib(M.subs, {}, what="subs")
            elif op[1] == "round":
                D = lib(round, M, 6, what="round")
            else:
                D = lib({"mul2": lambda: M * 2, "rmul3": lambda: 3 * M, "neg": lambda: -M, "add1": lambda: M + 1,
                         "rsub1": lambda: 1 - M, "ctor": lambda: type(M)(M), "div2": lambda: M / 2}[op[1]],
                        what="derive:" + op[1])
                if D is M:
                    raise Violation("derive_returned_receiver/%s" % op[1], "out-of-place operation returned its receiver")
            if type(D) is not type(M):
                raise Violation("derive_type/%s" % op[1], "%s -> %s" % (type(M).__name__, type(D).__name__))
            if op[1] == "subs" and ref.canon(dict(D), spin) != before:   # rounding may legitimately change values
                raise Violation("derive_changed_function/%s" % op[1], "%r -> %r" % (before, dict(D)))
            M = D
            flags.add("derived_" + op[1])
        elif name == "observe":
            check_bookkeeping(M, kind, "pre-observe")
            observe(M, kind, rec)
            flags.add("observed")
        else:
            raise AssertionError(name)

        classes.add(name)
        check_bookkeeping(M, kind, name, exact=exact)
        cur_anc = {l for l in M.variables if _is_anc(l)} | {l for k in dict.keys(M) for l in k if _is_anc(l)}
        names_seen |= cur_anc
        if other is not None and name not in ("copy", "switch"):
            if gen.snapshot(other[0]) != other[1]:
                raise Violation("copy_not_independent/%s" % name,
                                "editing one side changed the other: %r -> %r" % (other[1], gen.snapshot(other[0])))

    # final: refresh makes everything exact and keeps the function
    before = ref.canon(dict(M), spin)
    lib(M.refresh, what="refresh")
    if ref.canon(dict(M), spin) != before:
        raise Violation("refresh_changed_function", "before=%r after=%r" % (before, dict(M)))
    check_bookkeeping(M, kind, "final_refresh", exact=True)
    observe(M, kind, rec)

    # probe: a constraint that always needs ancillas must not reuse any name seen in this history
    if kind in ("PCBO", "PCSO") and len(spec["labels"]) >= 2:
        l0, l1 = spec["labels"][0], spec["labels"][1]
        before = ref.canon(dict(M), spin)
        lib(M.add_constraint_ne_zero, {(l0,): 1, (l1,): -1}, what="constraint_ne(probe)", lam=1)
        F = ref.poly_add(ref.canon(dict(M), spin), before, -1)
        used = {l for k in F for l in k if _is_anc(l)}
        if not used:
            raise Violation("probe_constraint_without_ancilla", "F=%r" % (F,))
        reused = used & names_seen
        if reused:
            how = "after_derive" if flags & {"derived_subs", "derived_round"} else ("after_product" if after_product else (
                "after_update_with_constrained_model" if "update_brought_ancillas" in flags else "plain"))
            raise Violation("ancilla_name_reused/%s" % how,
                            "probe constraint reuses %r (seen before: %r); num_ancillas=%r model=%r" %
                            (sorted(reused), sorted(names_seen), M.num_ancillas, dict(M)))
        check_bookkeeping(M, kind, "probe_constraint")

    interesting = flags & {"zero_to_new_label", "repeated_label", "cancellation", "constraint_after_product",
                           "update_brought_ancillas"}
    nontrivial = bool(interesting)
    rec.case(spec, nontrivial, sorted(classes | flags))


def subchecks(tier):
    return [Sub("history", history(), run_case, quick=10000, thorough=240000)]
