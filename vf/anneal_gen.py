"""Shared generator and oracle for the four annealing functions (C11, C12, C17).

A *call spec* is plain data:
  func        anneal_qubo | anneal_quso | anneal_pubo | anneal_puso
  kind        model kind accepted by func, or 'dict'
  labels      label pool
  terms       polynomial spec [[key, coef], ...]   (key may repeat labels for dict inputs)
  stale       list of keys that are added with coefficient 1 and then cancelled
              (labelled kinds only) -> model reports more variables than its terms have
  num_anneals, anneal_duration, schedule ('linear' | 'geometric' | ['explicit', [T...]]),
  temperature_range (None | [T0, Tf]), init (None | list of bits, one per variable,
  cycled), in_order, seed (None | int >= 0)
"""
import warnings

from hypothesis import strategies as st

from . import gen, ref
from .common import Violation, lib

FUNCS = {
    "anneal_qubo": (False, ["dict", "QUBO", "QUBOMatrix"]),
    "anneal_quso": (True, ["dict", "QUSO", "QUSOMatrix"]),
    "anneal_pubo": (False, ["dict", "QUBO", "PUBO", "PCBO", "QUBOMatrix", "PUBOMatrix"]),
    "anneal_puso": (True, ["dict", "QUSO", "PUSO", "PCSO", "QUSOMatrix", "PUSOMatrix"]),
}
QUAD_FUNCS = ("anneal_qubo", "anneal_quso")


def _dedupe(terms, spin):
    """Drop later raw keys whose canonical form repeats an earlier one, so a
    raw dict never relies on cancellation between different raw keys."""
    seen, out = set(), []
    for k, v in terms:
        c = next(iter(ref.canon({tuple(k): 1}, spin)), frozenset())
        if c in seen:
            continue
        seen.add(c)
        out.append([tuple(k), v])
    return out


def schedule_strategy(zero_ok=True):
    temps = st.sampled_from([0.0, 0.25, 0.5, 1.0, 2.0, 3.5, 8.0] if zero_ok else [0.25, 0.5, 1.0, 2.0, 3.5, 8.0])
    return st.one_of(
        st.just("linear"), st.just("geometric"), st.just("geometric"),
        st.tuples(st.just("explicit"), st.lists(temps, min_size=0, max_size=6)),
    )


def call_spec(funcs=tuple(FUNCS), coefs=None, max_deg=5, n_max=6, max_terms=7, stale=True,
              num_anneals=gen.pick((1, 4), (2, 3), (3, 2), (7, 2), (0, 1), (-1, 1)),
              durations=gen.pick((1, 2), (2, 2), (3, 2), (10, 1)), seeds=None):
    if coefs is None:
        # one coefficient class per model (a list of strategies): mixing magnitudes inside one model would make
        # ordinary floating point cancellation look like a wrong value
        coefs = [gen.MIXED_COEFS, gen.MIXED_COEFS, st.one_of(gen.MIXED_COEFS, gen.FLOAT_COEFS), gen.MIXED_COEFS,
                 st.one_of(gen.MIXED_COEFS, gen.FLOAT_COEFS), gen.FLOAT_COEFS, gen.TINY_COEFS, gen.HUGE_COEFS]
    if not isinstance(coefs, (list, tuple)):
        coefs = [coefs]
    if seeds is None:
        seeds = st.one_of(st.none(), st.just(0), st.integers(0, 2 ** 31 - 1))

    def for_func_kind(fk):
        func, kind = fk
        spin, _ = FUNCS[func]
        quad = func in QUAD_FUNCS or gen.is_quad(kind)
        matrix = gen.is_matrix(kind)
        rep = (kind == "dict")

        def for_labels(labels):
            terms = st.tuples(st.integers(0, 9), st.integers(0, len(coefs) - 1)).flatmap(lambda rc: gen.poly_strategy(
                labels, max_terms, max_deg, coefs[rc[1]], repeats=rep, quad=quad, spin=spin,
                min_terms=0 if rc[0] == 0 else 2)).map(lambda t: _dedupe(t, spin))
            stale_keys = st.just([])
            if stale and kind in gen.LABELLED_KINDS:
                stale_keys = st.one_of(
                    st.just([]), st.just([]),
                    st.lists(gen.key_strategy(labels, 2 if quad else 3, False, min_deg=1), min_size=1, max_size=2))
            sched = schedule_strategy()
            return st.fixed_dictionaries({
                "func": st.just(func), "kind": st.just(kind), "labels": st.just(labels),
                "terms": terms, "stale": stale_keys,
                "num_anneals": num_anneals, "anneal_duration": durations,
                "schedule": sched,
                "temperature_range": st.one_of(
                    st.none(), st.none(),
                    st.sampled_from([[2.0, 0.5], [1.0, 1.0], [8.0, 0.125], [3.0, 0.0], [0.0, 0.0]])),
                "init": st.one_of(st.lists(st.integers(0, 1), min_size=1, max_size=8), st.none()),
                "in_order": gen.pick((True, 1), (False, 1)),
                # labelled kinds: install another (documented) label -> integer mapping with set_mapping first
                "remap": gen.pick((False, 3), (True, 1)) if kind in gen.LABELLED_KINDS else st.just(False),
                "reuse": gen.pick((False, 4), (True, 1)) if kind in gen.LABELLED_KINDS else st.just(False),
                "stale_first": st.booleans(),
                "derived": gen.pick((None, 5), ("copy", 1), ("ctor", 1), ("add0", 1), ("mul1", 1), ("neg2", 1)),
                "seed": seeds,
                # how an explicit schedule is handed over: the documented "iterable of floats" as a list of floats, with
                # integral temperatures as python ints, as a tuple, a numpy array, a generator or Fractions
                "sched_form": gen.pick(("list", 4), ("ints", 2), ("tuple", 1), ("ndarray", 1), ("gen", 1), ("frac", 1)),
            })
        return st.integers(0, 9).flatmap(
            lambda r: gen.label_pool(matrix, 1 if r == 0 else 2, n_max)).flatmap(for_labels)

    pairs = [(f, k) for f in funcs for k in FUNCS[f][1]]
    return st.sampled_from(pairs).flatmap(for_func_kind)


def schedule_in_form(temps, form):
    temps = [float(t) for t in temps]
    if form == "ints":
        return [int(t) if t.is_integer() else t for t in temps]
    if form == "tuple":
        return tuple(temps)
    if form == "ndarray":
        import numpy as np
        return np.array(temps, dtype=np.float64)
    if form == "gen":
        return (t for t in temps)
    if form == "frac":
        from fractions import Fraction
        return [Fraction(t) for t in temps]
    return list(temps)


def normalise(spec):
    """Make schedule / temperature_range combinations admissible (documented
    constraints): a zero temperature only with 'linear' or an explicit schedule."""
    sched, tr = spec["schedule"], spec["temperature_range"]
    if isinstance(sched, str) and tr is not None:
        T0, Tf = tr
        if sched == "geometric" and (T0 == 0 or Tf == 0):
            sched = "linear"
    return sched, tr


def prepare(qv, spec):
    """Build (callable, model, kwargs, expected_variables, ref_terms, spin)."""
    func = spec["func"]
    spin, _ = FUNCS[func]
    kind = spec["kind"]
    terms = [[tuple(k), v] for k, v in spec["terms"]]
    if kind == "dict":
        model = gen.terms_dict(terms)
    else:
        if spec.get("reuse") and kind in gen.LABELLED_KINDS and len(spec["labels"]) >= 2:
            # an object with a past: first another model over the same labels in rotated roles (so every label had a
            # different integer and the degree / variable bookkeeping was different), then clear() and the real terms
            labs = list(spec["labels"])
            rot = dict(zip(labs, labs[1:] + labs[:1]))
            model = gen.build(qv, kind, [[tuple(rot.get(l, l) for l in reversed(k)), v] for k, v in terms] + [[(labs[-1],), 1]])
            model.clear()
            for k, v in terms:
                model[tuple(k)] += v
        elif spec.get("stale_first") and spec.get("stale"):
            # the cancelled variables enter first, so they hold the *lowest* integers of the mapping
            model = gen.cls_of(qv, kind)()
            # (a label of its own, so that at least one variable really drops out of every term)
            ghost = [("zz_ghost",)] if kind in gen.LABELLED_KINDS else []
            for k in ghost + [tuple(k) for k in spec["stale"]]:
                model[tuple(k)] += 1
            for k, v in terms:
                model[tuple(k)] += v
            for k in ghost + [tuple(k) for k in spec["stale"]]:
                model[tuple(k)] -= 1
            spec = dict(spec, stale=[])
        else:
            model = gen.build(qv, kind, terms)
        for k in spec.get("stale") or []:
            k = tuple(k)
            model[k] += 1
            model[k] -= 1
    if spec.get("derived") and kind != "dict":
        # the model handed to the annealer is the result of an earlier library call on the model built above
        model = {"copy": lambda m: m.copy(), "ctor": lambda m: type(m)(m), "add0": lambda m: m + 0,
                 "mul1": lambda m: m * 1, "neg2": lambda m: -(-m)}[spec["derived"]](model)
    if spec.get("remap") and kind in gen.LABELLED_KINDS:
        mp = model.mapping
        n_ = len(mp)
        if n_ >= 2:
            # a bijection onto 0..n-1 that is neither the default nor ascending in insertion order
            model.set_mapping({l: (i * 2 + 1) % n_ if n_ % 2 else n_ - 1 - i for l, i in mp.items()})
    ref_terms = dict(model)
    if kind == "dict":
        expected = set()
        for k in ref.canon(ref_terms, spin):
            expected.update(k)
    elif gen.is_matrix(kind):
        mi = model.max_index
        expected = set(range(mi + 1)) if mi is not None else set()
    else:
        expected = set(model.variables)
    sched, tr = normalise(spec)
    kwargs = {
        "num_anneals": spec["num_anneals"],
        "anneal_duration": spec["anneal_duration"],
        "in_order": spec["in_order"],
        "seed": spec["seed"],
    }
    if isinstance(sched, str):
        kwargs["schedule"] = sched
        if tr is not None:
            kwargs["temperature_range"] = tuple(tr)
    else:
        kwargs["schedule"] = schedule_in_form(sched[1], spec.get("sched_form"))
    init = None
    if spec["init"] is not None:
        bits = spec["init"]
        order = sorted(expected, key=lambda l: (str(type(l)), l))
        init = {}
        for i, l in enumerate(order):
            b = bits[i % len(bits)]
            init[l] = (1 - 2 * b) if spin else b
        kwargs["initial_state"] = init
    return getattr(qv.sim, func), model, kwargs, expected, ref_terms, spin, init


def scale_of(terms):
    return sum(abs(v) for v in terms.values()) or 1.0


def exact_coefs(terms):
    """True when every coefficient is a dyadic rational k/8 of small magnitude
    (then all library and C arithmetic on them is exact)."""
    return all(float(v * 8).is_integer() and abs(v) <= 64 for v in terms.values())


def check_result(qv, spec, res, model, kwargs, expected, ref_terms, spin, init, alt_expected=None):
    """C11's oracle on one returned AnnealResults."""
    want_n = max(spec["num_anneals"], 0)
    if type(res) is not qv.sim.AnnealResults:
        raise Violation("result_type", "returned %s" % type(res).__name__)
    if len(res) != want_n:
        raise Violation("result_count", "num_anneals=%r but %d results" % (spec["num_anneals"], len(res)))
    dom = (1, -1) if spin else (0, 1)
    exact = exact_coefs(ref_terms)
    tol = 0.0 if exact else 1e-9 * scale_of(ref_terms)
    vals = []
    cterms = ref.canon_to_terms(ref.canon(ref_terms, spin))
    for r in res:
        if type(r) is not qv.sim.AnnealResult:
            raise Violation("element_type", "element is %s" % type(r).__name__)
        if r.spin is not spin and r.spin != spin:
            raise Violation("spin_flag", "spin flag %r for %s" % (r.spin, spec["func"]))
        keys = set(r.state.keys())
        if keys != expected and not (alt_expected is not None and keys == alt_expected):
            raise Violation("state_keys", "state keys %r, expected %r (model %r)" % (sorted(map(repr, keys)), sorted(map(repr, expected)), ref_terms))
        for l, v in r.state.items():
            if v not in dom or isinstance(v, bool):
                raise Violation("state_domain", "state[%r]=%r not in %r" % (l, v, dom))
        want = ref.ref_value(cterms, r.state)
        if abs(r.value - want) > tol:
            raise Violation("value_mismatch", "value=%r but model(state)=%r state=%r model=%r" % (r.value, want, r.state, ref_terms))
        vals.append(r.value)
    if want_n == 0:
        if res.best is not None:
            raise Violation("best_on_empty", "best=%r" % (res.best,))
    else:
        if res.best is None or res.best.value != min(vals):
            raise Violation("best_not_min", "best=%r min=%r" % (res.best, min(vals)))
        if not any(res.best is r or res.best == r for r in res):
            raise Violation("best_not_element", "best=%r" % (res.best,))


def alt_expected_for(spec, model, ref_terms, spin):
    """Second admissible reading of "the model's variables", used only where
    the statement does not pin it:
    * anneal_pubo documents every BOOLEAN_MODELS type as input; a QUBOMatrix is
      converted to a *labelled* spin model on the way, so its states cover the
      variables present rather than every index up to max_index;
    * a labelled model in stale bookkeeping state (a term cancelled) reports
      more variables than its terms have; states over the reported or over the
      true variables are both accepted."""
    if spec["func"] == "anneal_pubo" and spec["kind"] == "QUBOMatrix":
        return set(model.variables)
    if spec.get("stale") and spec["kind"] in gen.LABELLED_KINDS:
        true = set()
        for k in ref.canon(ref_terms, spin):
            true.update(k)
        return true
    return None


def run_call(qv, spec, rec=None):
    """Execute one call under C11's oracle; returns the AnnealResults."""
    f, model, kwargs, expected, ref_terms, spin, init = prepare(qv, spec)
    snap = gen.snapshot(model) if not isinstance(model, dict) or type(model) is not dict else dict(model)
    init_copy = dict(init) if init is not None else None
    with warnings.catch_warnings():
        warnings.simplefilter("ignore")
        res = lib(f, model, what=spec["func"], **kwargs)
    check_result(qv, spec, res, model, kwargs, expected, ref_terms, spin, init,
                 alt_expected_for(spec, model, ref_terms, spin))
    after = gen.snapshot(model) if type(model) is not dict else dict(model)
    if after != snap:
        raise Violation("model_mutated", "%r -> %r" % (snap, after))
    if init is not None and init != init_copy:
        raise Violation("initial_state_mutated", "%r -> %r" % (init_copy, init))
    return res, (f, model, kwargs, expected, ref_terms, spin, init)


def classify(spec, expected, ref_terms):
    sched = spec["schedule"]
    cl = [spec["func"], "kind=" + spec["kind"],
          "sched=" + (sched if isinstance(sched, str) else "explicit"),
          "init=" + ("yes" if spec["init"] is not None else "no"),
          "order=" + ("in" if spec["in_order"] else "random"),
          "seed=" + ("none" if spec["seed"] is None else "int")]
    if spec.get("stale"):
        cl.append("stale")
    if spec.get("remap"):
        cl.append("set_mapping")
    if not expected:
        cl.append("no_variables")
    if len(expected) == 1:
        cl.append("single_variable")
    if not isinstance(sched, str) and (len(sched[1]) == 0):
        cl.append("empty_schedule")
    if not isinstance(sched, str) and any(t == 0 for t in sched[1]):
        cl.append("zero_temperature")
    if spec["num_anneals"] <= 0:
        cl.append("num_anneals<=0")
    if gen.is_matrix(spec["kind"]) and expected - {l for k in ref_terms for l in k}:
        cl.append("matrix_gap")
    return cl


def size_cases(tier):
    """Chains of N spins for N around the powers of two (size-dependent branches, stack-vs-heap switches,
    chunked loops), through every Matrix path of both kernels; several sizes per worker process."""
    sizes = [1, 2, 3, 4, 5, 7, 8, 9, 15, 16, 17, 31, 32, 33, 63, 64, 65, 127, 128, 129, 255, 256, 257, 511, 512, 513, 1023, 1024, 1025]

    def chain(func, kind, n, init, in_order, sched):
        terms = [[(i, i + 1), 1 if i % 2 else -2] for i in range(n - 1)] + [[(0,), 0.5]]
        if func in ("anneal_puso", "anneal_pubo") and n >= 3:
            terms.append([(0, 1, 2), 1.5])
        return {"func": func, "kind": kind, "labels": list(range(n)), "terms": terms, "stale": [],
                "num_anneals": 2, "anneal_duration": 2, "schedule": ("explicit", sched), "temperature_range": None,
                "init": ([0, 1] if init else None), "in_order": in_order, "seed": 11}
    paths = [("anneal_quso", "QUSOMatrix"), ("anneal_qubo", "QUBOMatrix"), ("anneal_puso", "PUSOMatrix"),
             ("anneal_pubo", "PUBOMatrix"), ("anneal_quso", "QUSO"), ("anneal_puso", "dict")]
    if tier == "quick":
        paths = paths[:4]
    j = 0
    for func, kind in paths:
        for lo in range(0, len(sizes), 6):
            calls = []
            for n in sizes[lo:lo + 6]:
                calls.append(chain(func, kind, n, j % 2 == 0, j % 3 != 0, [1.0, 0.0] if j % 2 else [2.0]))
                j += 1
            yield {"calls": calls}
            # the same sizes shrinking: whatever a call keeps for the next one (scratch buffers sized by an earlier,
            # larger model) is exercised by a smaller model afterwards
            yield {"calls": list(reversed(calls))}
        zig = [1025, 2, 129, 5, 128, 65, 127, 33, 257, 1, 64, 3]
        yield {"calls": [chain(func, kind, n, i % 2 == 0, i % 3 != 0, [1.0, 0.0] if i % 2 else [2.0]) for i, n in enumerate(zig)]}
